#!/bin/bash
# usage: tools/try_seeded.sh <patch.diff> <ID> [<ID> ...]   -- applies the patch to /repo, runs quick checks, reverts.
set -u
patch="$1"; shift
REPO=${RSV_REPO:-/repo}; VERIF=${RSV_VERIF:-/verif}
cd $REPO || exit 2
if ! git diff --quiet; then echo "repo dirty, refusing"; exit 2; fi
trap 'git -C $REPO checkout -- . ; git -C $REPO clean -fdq -- src rsactor-derive tests 2>/dev/null' EXIT
if ! git apply "$patch" 2>/tmp/apply.err; then
  if ! git apply -3 "$patch" 2>>/tmp/apply.err; then echo "PATCH DOES NOT APPLY: $(head -3 /tmp/apply.err)"; exit 3; fi
fi
cd $VERIF
for id in "$@"; do
  out=$(VERIF_TIER=${TIER:-quick} ./check "$id" --tier ${TIER:-quick} 2>&1); rc=$?
  nv=$(echo "$out" | grep -c '^VIOLATION')
  first=$(echo "$out" | grep -A1 '^VIOLATION' | sed -n '2p' | cut -c1-260)
  inc=$(echo "$out" | grep '^INCONCLUSIVE' | head -1 | cut -c1-200)
  echo "  $id rc=$rc violations=$nv $first $inc"
done
