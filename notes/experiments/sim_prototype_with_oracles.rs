// Prototype of the SIM engine + first-cut oracles, to find surprises before the design is frozen.
use rsactor::{spawn_with_mailbox_capacity, Actor, ActorRef, ActorWeak, Message};
use std::cell::RefCell;
use std::collections::{BTreeMap, BTreeSet};
use std::future::Future;
use std::pin::Pin;
use std::rc::Rc;
use std::sync::{Arc, Mutex};
use std::task::{Context, Poll};
use std::time::Duration;
use tokio::time::Instant;

#[derive(Clone, Debug, PartialEq)]
enum Res { Ok(Option<u64>), Send, Timeout, Receive, Other }
#[derive(Clone, Debug, PartialEq)]
enum Out { Ok, True, False, Err, Panic }
#[derive(Clone, Debug)]
enum Ev {
    CallStart { op: u64, actor: usize, kind: &'static str, uid: u64, to: u64, t: u64 },
    CallEnd { op: u64, res: Res, t: u64 },
    HEnter { actor: usize, uid: u64, t: u64 },
    HExit { actor: usize, uid: u64, reply: u64, t: u64 },
    StartEnter { actor: usize }, StartExit { actor: usize, out: Out },
    StopEnter { actor: usize, killed: bool, t: u64 }, StopExit { actor: usize, out: Out },
    RunPoll { actor: usize, inv: u32, t: u64 }, RunDone { actor: usize, inv: u32, out: Out }, RunCancel { actor: usize, inv: u32 },
    Ended { actor: usize, t: u64, completed: Option<bool>, killed: Option<bool>, panic: bool },
    DeadLetter { actor_id: u64, op: String, reason: String },
    DropRef { actor: usize, remaining: usize },
    Sample { actor: usize, t: u64, finished: bool, upgrade: bool, model_strong: usize },
}
type Log = Arc<Mutex<Vec<Ev>>>;
fn push(l: &Log, e: Ev) { l.lock().unwrap().push(e) }

struct Rng(u64);
impl Rng { fn next(&mut self) -> u64 { self.0 = self.0.wrapping_add(0x9E3779B97F4A7C15); let mut z = self.0; z = (z ^ (z >> 30)).wrapping_mul(0xBF58476D1CE4E5B9); z = (z ^ (z >> 27)).wrapping_mul(0x94D049BB133111EB); z ^ (z >> 31) } fn below(&mut self, n: u64) -> u64 { self.next() % n } fn chance(&mut self, pct: u64) -> bool { self.below(100) < pct } }

#[derive(Clone)]
struct RunStep { sleep: u64, out: Out }
struct Args { idx: usize, log: Log, t0: Instant, run: Vec<RunStep>, stop_out: Out, start_out: Out, start_sleep: u64, gates: Arc<Vec<tokio::sync::Semaphore>>, peers: Arc<Mutex<Vec<Option<ActorRef<S>>>>>, opctr: Arc<Mutex<u64>> }
struct S { a: Args, n: u64, run_done: usize, inv: u32, said_false: bool }
#[derive(Clone)]
struct M { uid: u64, sleep: u64, gate: Option<usize>, kill_self: bool, hpanic: bool, peer: Option<(usize, bool, u64)> }
fn now(t0: Instant) -> u64 { t0.elapsed().as_millis() as u64 }

struct Polled<'a, F> { f: Pin<Box<F>>, log: &'a Log, actor: usize, inv: u32, t0: Instant, done: bool }
impl<'a, F: Future<Output = Result<bool, String>>> Future for Polled<'a, F> {
    type Output = Result<bool, String>;
    fn poll(mut self: Pin<&mut Self>, cx: &mut Context<'_>) -> Poll<Self::Output> {
        push(self.log, Ev::RunPoll { actor: self.actor, inv: self.inv, t: now(self.t0) });
        let r = self.f.as_mut().poll(cx);
        if let Poll::Ready(ref v) = r { self.done = true; let out = match v { Ok(true) => Out::True, Ok(false) => Out::False, Err(_) => Out::Err }; push(self.log, Ev::RunDone { actor: self.actor, inv: self.inv, out }); }
        r
    }
}
impl<'a, F> Drop for Polled<'a, F> { fn drop(&mut self) { if !self.done && !std::thread::panicking() { push(self.log, Ev::RunCancel { actor: self.actor, inv: self.inv }); } } }

impl Actor for S {
    type Args = Args; type Error = String;
    async fn on_start(a: Args, _: &ActorRef<Self>) -> Result<Self, String> {
        push(&a.log, Ev::StartEnter { actor: a.idx });
        if a.start_sleep > 0 { tokio::time::sleep(Duration::from_millis(a.start_sleep)).await; }
        match a.start_out { Out::Err => { push(&a.log, Ev::StartExit { actor: a.idx, out: Out::Err }); return Err("start".into()) } Out::Panic => { push(&a.log, Ev::StartExit { actor: a.idx, out: Out::Panic }); panic!("scripted start panic") } _ => {} }
        push(&a.log, Ev::StartExit { actor: a.idx, out: Out::Ok });
        Ok(S { a, n: 0, run_done: 0, inv: 0, said_false: false })
    }
    async fn on_run(&mut self, _: &ActorWeak<Self>) -> Result<bool, String> {
        self.inv += 1; let inv = self.inv; let idx = self.a.idx; let t0 = self.a.t0; let log = self.a.log.clone();
        let step = self.a.run.get(self.run_done).cloned();
        let run_done = &mut self.run_done; let was_false = self.said_false; let said_false = &mut self.said_false;
        let fut = async move {
            if was_false { std::future::pending::<()>().await; }
            let r: Result<bool, String> = match step { None => Ok(false), Some(st) => { if st.sleep > 0 { tokio::time::sleep(Duration::from_millis(st.sleep)).await; } *run_done += 1; match st.out { Out::True => Ok(true), Out::False => Ok(false), Out::Panic => panic!("scripted run panic"), _ => Err("run".to_string()) } } };
            if r == Ok(false) { *said_false = true; }
            r
        };
        Polled { f: Box::pin(fut), log: &log, actor: idx, inv, t0, done: false }.await
    }
    async fn on_stop(&mut self, _: &ActorWeak<Self>, k: bool) -> Result<(), String> {
        push(&self.a.log, Ev::StopEnter { actor: self.a.idx, killed: k, t: now(self.a.t0) });
        tokio::time::sleep(Duration::from_millis(2)).await;
        let out = self.a.stop_out.clone(); push(&self.a.log, Ev::StopExit { actor: self.a.idx, out: out.clone() });
        match out { Out::Err => Err("stop".into()), Out::Panic => panic!("scripted stop panic"), _ => Ok(()) }
    }
}
impl Message<M> for S { type Reply = u64;
    async fn handle(&mut self, m: M, r: &ActorRef<Self>) -> u64 {
        self.n += 1; push(&self.a.log, Ev::HEnter { actor: self.a.idx, uid: m.uid, t: now(self.a.t0) });
        if let Some(g) = m.gate { let p = self.a.gates[g].acquire().await.unwrap(); p.forget(); }
        if m.sleep > 0 { tokio::time::sleep(Duration::from_millis(m.sleep)).await; }
        if m.kill_self { r.kill().unwrap(); }
        if let Some((t, ask, nuid)) = m.peer { let peer = self.a.peers.lock().unwrap()[t].clone(); if let Some(p) = peer {
            let op = { let mut c = self.a.opctr.lock().unwrap(); *c += 1; *c + 1_000_000 };
            let sub = M { uid: nuid, sleep: 2, gate: None, kill_self: false, hpanic: false, peer: None };
            push(&self.a.log, Ev::CallStart { op, actor: t, kind: if ask { "ask" } else { "tell" }, uid: nuid, to: 0, t: now(self.a.t0) });
            let res = if ask { p.ask(sub).await.map(Some) } else { p.tell(sub).await.map(|_| None) };
            push(&self.a.log, Ev::CallEnd { op, res: match res { Ok(v) => Res::Ok(v), Err(e) => map_err(e) }, t: now(self.a.t0) }); } }
        if m.hpanic { panic!("scripted handler panic"); }
        let reply = m.uid * 1000 + self.n;
        push(&self.a.log, Ev::HExit { actor: self.a.idx, uid: m.uid, reply, t: now(self.a.t0) }); reply } }

// ---- dead letter capture
struct Sub { log: Arc<Mutex<Option<Log>>> }
struct V { id: u64, op: String, reason: String, is_dl: bool }
impl tracing::field::Visit for V {
    fn record_u64(&mut self, f: &tracing::field::Field, v: u64) { if f.name() == "actor.id" { self.id = v } }
    fn record_str(&mut self, f: &tracing::field::Field, v: &str) { if f.name() == "dead_letter.operation" { self.op = v.to_string() } }
    fn record_debug(&mut self, f: &tracing::field::Field, v: &dyn std::fmt::Debug) { let s = format!("{v:?}"); if f.name() == "dead_letter.reason" { self.reason = s } else if f.name() == "message" && s.contains("Dead letter") { self.is_dl = true } else if f.name() == "dead_letter.operation" { self.op = s } }
}
impl tracing::Subscriber for Sub {
    fn enabled(&self, _: &tracing::Metadata<'_>) -> bool { true }
    fn new_span(&self, _: &tracing::span::Attributes<'_>) -> tracing::span::Id { tracing::span::Id::from_u64(1) }
    fn record(&self, _: &tracing::span::Id, _: &tracing::span::Record<'_>) {}
    fn record_follows_from(&self, _: &tracing::span::Id, _: &tracing::span::Id) {}
    fn event(&self, e: &tracing::Event<'_>) { let mut v = V { id: 0, op: String::new(), reason: String::new(), is_dl: false }; e.record(&mut v); if v.is_dl { if let Some(l) = self.log.lock().unwrap().as_ref() { push(l, Ev::DeadLetter { actor_id: v.id, op: v.op, reason: v.reason }); } } }
    fn enter(&self, _: &tracing::span::Id) {} fn exit(&self, _: &tracing::span::Id) {}
}

#[derive(Clone, Debug)]
enum Op { Tell, TellTo(u64), Ask, AskTo(u64), Stop, Kill, DropRef, OpenGate(usize) }
#[derive(Clone, Debug)]
struct COp { op: Op, pre: u64 /*0 none,1 yield, else sleep ms*/, msg_sleep: u64, gate: Option<usize>, kill_self: bool, hpanic: bool, peer: Option<(usize, bool)> }
#[derive(Debug, Clone)]
struct ActorSpec { cap: usize, run: Vec<(u64, Out)>, stop_out: Out, start_out: Out, start_sleep: u64 }
#[derive(Debug, Clone)]
struct Scenario { actors: Vec<ActorSpec>, clients: Vec<(usize, Vec<COp>)>, ngates: usize }

fn gen(seed: u64) -> Scenario {
    let mut r = Rng(seed);
    let nact = 1 + r.below(3) as usize; let ngates = 1 + r.below(2) as usize;
    let mut actors = vec![];
    for _ in 0..nact {
        let mut run = vec![]; for _ in 0..r.below(4) { let out = match r.below(10) { 0 => Out::Err, 1 | 2 => Out::False, 3 if r.chance(20) => Out::Panic, _ => Out::True }; run.push((2 * r.below(4), out)); }
        if run.iter().all(|(s, o)| *s == 0 && *o == Out::True) { run.clear(); }
        // avoid zero-sleep Ok(true) spin: give every True step a sleep
        for st in run.iter_mut() { if st.1 == Out::True && st.0 == 0 { st.0 = 2; } }
        actors.push(ActorSpec { cap: 1 + r.below(4) as usize, run, stop_out: if r.chance(10) { Out::Err } else if r.chance(5) { Out::Panic } else { Out::Ok }, start_out: if r.chance(5) { Out::Err } else if r.chance(3) { Out::Panic } else { Out::Ok }, start_sleep: 2 * r.below(3) });
    }
    let mut clients = vec![];
    for _ in 0..(2 + r.below(4)) {
        let target = r.below(nact as u64) as usize; let mut ops = vec![];
        for _ in 0..(2 + r.below(7)) {
            let op = match r.below(20) { 0..=5 => Op::Tell, 6 | 7 => Op::TellTo(2 * (1 + r.below(5))), 8..=12 => Op::Ask, 13 | 14 => Op::AskTo(2 * (1 + r.below(5))), 15 => Op::Stop, 16 => Op::Kill, 17 => Op::OpenGate(r.below(ngates as u64) as usize), _ => Op::Tell };
            let pre = match r.below(4) { 0 => 0, 1 => 1, _ => 2 * (1 + r.below(4)) };
            let peer = if target + 1 < nact && r.chance(25) { Some((target + 1, r.chance(60))) } else { None };
            ops.push(COp { op, pre, msg_sleep: 2 * r.below(4), gate: if r.chance(15) { Some(r.below(ngates as u64) as usize) } else { None }, kill_self: r.chance(3), hpanic: r.chance(2), peer });
        }
        if r.chance(50) { ops.push(COp { op: Op::DropRef, pre: 0, msg_sleep: 0, gate: None, kill_self: false, hpanic: false, peer: None }); }
        clients.push((target, ops));
    }
    Scenario { actors, clients, ngates }
}

fn map_err(e: rsactor::Error) -> Res { assert_eq!(e.is_retryable(), matches!(e, rsactor::Error::Timeout { .. })); match e { rsactor::Error::Send { .. } => Res::Send, rsactor::Error::Timeout { .. } => Res::Timeout, rsactor::Error::Receive { .. } => Res::Receive, _ => Res::Other } }

struct RunOut { log: Vec<Ev>, ids: Vec<u64>, dl_delta: u64, open_ops: Vec<u64> }
fn run(sc: &Scenario, sub_slot: &Arc<Mutex<Option<Log>>>) -> RunOut {
    let rt = tokio::runtime::Builder::new_current_thread().enable_time().start_paused(true).build().unwrap();
    let log: Log = Arc::new(Mutex::new(Vec::new()));
    *sub_slot.lock().unwrap() = Some(log.clone());
    let dl0 = rsactor::dead_letter_count();
    let sc = sc.clone(); let l2 = log.clone();
    let (ids, open_ops) = rt.block_on(async move {
        let t0 = Instant::now();
        let gates: Arc<Vec<tokio::sync::Semaphore>> = Arc::new((0..sc.ngates).map(|_| tokio::sync::Semaphore::new(0)).collect());
        let mut refs: Vec<Option<ActorRef<S>>> = vec![]; let mut weaks = vec![]; let mut ids = vec![]; let mut jhs = vec![];
        let strong: Rc<RefCell<Vec<usize>>> = Rc::new(RefCell::new(vec![0; sc.actors.len()]));
        let peers: Arc<Mutex<Vec<Option<ActorRef<S>>>>> = Arc::new(Mutex::new(vec![None; sc.actors.len()])); let aopctr = Arc::new(Mutex::new(0u64));
        for (i, a) in sc.actors.iter().enumerate() {
            let args = Args { idx: i, log: l2.clone(), t0, run: a.run.iter().map(|(s, o)| RunStep { sleep: *s, out: o.clone() }).collect(), stop_out: a.stop_out.clone(), start_out: a.start_out.clone(), start_sleep: a.start_sleep, gates: gates.clone(), peers: peers.clone(), opctr: aopctr.clone() };
            let (r, jh) = spawn_with_mailbox_capacity::<S>(args, a.cap);
            ids.push(r.identity().id); weaks.push(ActorRef::downgrade(&r)); peers.lock().unwrap()[i] = Some(r.clone()); strong.borrow_mut()[i] += 1; refs.push(Some(r));
            let l3 = l2.clone();
            jhs.push(tokio::spawn(async move { let res = jh.await; let (c, k, p) = match &res { Ok(r) => (Some(r.is_completed()), Some(r.was_killed()), false), Err(e) => (None, None, e.is_panic()) }; push(&l3, Ev::Ended { actor: i, t: now(t0), completed: c, killed: k, panic: p }); }));
        }
        let opctr = Rc::new(RefCell::new(0u64)); let open: Rc<RefCell<BTreeSet<u64>>> = Rc::new(RefCell::new(BTreeSet::new()));
        let mut uid = 0u64; let local = tokio::task::LocalSet::new();
        let mut handles = vec![];
        for (ci, (target, ops)) in sc.clients.iter().enumerate() {
            let r = refs[*target].as_ref().unwrap().clone(); strong.borrow_mut()[*target] += 1;
            let ops: Vec<(COp, u64)> = ops.iter().map(|o| { uid += 1; (o.clone(), uid) }).collect();
            let (l3, gates, opctr, open, strong, target) = (l2.clone(), gates.clone(), opctr.clone(), open.clone(), strong.clone(), *target);
            let _ = ci;
            handles.push(local.spawn_local(async move {
                let mut r = Some(r);
                for (o, uid) in ops {
                    match o.pre { 0 => {} 1 => tokio::task::yield_now().await, d => tokio::time::sleep(Duration::from_millis(d)).await }
                    let Some(rr) = r.as_ref() else { break };
                    let m = M { uid, sleep: o.msg_sleep, gate: o.gate, kill_self: o.kill_self, hpanic: o.hpanic, peer: o.peer.map(|(t, a)| (t, a, uid + 500_000)) };
                    let op = { let mut c = opctr.borrow_mut(); *c += 1; *c };
                    let (kind, to): (&'static str, u64) = match &o.op { Op::Tell => ("tell", 0), Op::TellTo(d) => ("tell_to", *d), Op::Ask => ("ask", 0), Op::AskTo(d) => ("ask_to", *d), Op::Stop => ("stop", 0), Op::Kill => ("kill", 0), Op::DropRef => ("drop", 0), Op::OpenGate(_) => ("gate", 0) };
                    if kind == "gate" { if let Op::OpenGate(g) = o.op { gates[g].add_permits(1000); } continue; }
                    if kind == "drop" { r = None; let mut s = strong.borrow_mut(); s[target] -= 1; push(&l3, Ev::DropRef { actor: target, remaining: s[target] }); continue; }
                    push(&l3, Ev::CallStart { op, actor: target, kind, uid, to, t: now(t0) }); open.borrow_mut().insert(op);
                    let res = match o.op { Op::Tell => rr.tell(m).await.map(|_| None), Op::TellTo(d) => rr.tell_with_timeout(m, Duration::from_millis(d)).await.map(|_| None), Op::Ask => rr.ask(m).await.map(Some), Op::AskTo(d) => rr.ask_with_timeout(m, Duration::from_millis(d)).await.map(Some), Op::Stop => rr.stop().await.map(|_| None), Op::Kill => rr.kill().map(|_| None), _ => unreachable!() };
                    open.borrow_mut().remove(&op);
                    push(&l3, Ev::CallEnd { op, res: match res { Ok(v) => Res::Ok(v), Err(e) => map_err(e) }, t: now(t0) });
                }
                if r.is_some() { let mut s = strong.borrow_mut(); s[target] -= 1; push(&l3, Ev::DropRef { actor: target, remaining: s[target] }); }
            }));
        }
        // drop the spawner's own refs
        for (i, r) in refs.iter_mut().enumerate() { *r = None; let _ = i; }
        let l4 = l2.clone(); let strong2 = strong.clone(); let gates2 = gates.clone(); let peers2 = peers.clone();
        local.run_until(async move {
            tokio::time::sleep(Duration::from_millis(3_600_001)).await; // Q1 (odd instant)
            for (i, w) in weaks.iter().enumerate() { let up = w.upgrade(); push(&l4, Ev::Sample { actor: i, t: now(t0), finished: false, upgrade: up.is_some(), model_strong: strong2.borrow()[i] }); }
            for g in gates2.iter() { g.add_permits(100000); }
            tokio::time::sleep(Duration::from_millis(3_600_000)).await; // Q2 (odd instant)
            // probe phase: peers table still holds one strong ref per actor
            let held: Vec<Option<ActorRef<S>>> = peers2.lock().unwrap().clone();
            for (i, p) in held.iter().enumerate() { if let Some(p) = p { let uid = 900_000 + i as u64; let op = 2_000_000 + i as u64;
                push(&l4, Ev::CallStart { op, actor: i, kind: "probe", uid, to: 0, t: now(t0) });
                let res = p.ask(M { uid, sleep: 0, gate: None, kill_self: false, hpanic: false, peer: None }).await;
                push(&l4, Ev::CallEnd { op, res: match res { Ok(v) => Res::Ok(Some(v)), Err(e) => map_err(e) }, t: now(t0) }); } }
            drop(held);
            for (i, p) in peers2.lock().unwrap().iter_mut().enumerate() { if p.take().is_some() { let mut s = strong2.borrow_mut(); s[i] -= 1; push(&l4, Ev::DropRef { actor: i, remaining: s[i] }); } }
            tokio::time::sleep(Duration::from_millis(3_600_000)).await; // Q3
            for (i, w) in weaks.iter().enumerate() { let up = w.upgrade(); push(&l4, Ev::Sample { actor: i, t: now(t0), finished: true, upgrade: up.is_some(), model_strong: strong2.borrow()[i] }); }
        }).await;
        drop(handles); drop(jhs);
        let open_ops: Vec<u64> = open.borrow().iter().cloned().collect();
        (ids, open_ops)
    });
    *sub_slot.lock().unwrap() = None;
    let dl_delta = rsactor::dead_letter_count() - dl0;
    let v = log.lock().unwrap().clone();
    RunOut { log: v, ids, dl_delta, open_ops }
}

// ---------------- oracles (first cut) ----------------
fn check(sc: &Scenario, out: &RunOut) -> Vec<String> {
    let mut v = vec![]; let log = &out.log;
    let n = sc.actors.len();
    // index
    let mut start: BTreeMap<u64, (usize, usize, &'static str, u64, u64, u64)> = BTreeMap::new(); // op -> (pos, actor, kind, uid, to, t)
    let mut end: BTreeMap<u64, (usize, Res, u64)> = BTreeMap::new();
    let mut henter: BTreeMap<u64, Vec<(usize, u64)>> = BTreeMap::new(); let mut hexit: BTreeMap<u64, (usize, u64, u64)> = BTreeMap::new();
    let mut stop_enter: Vec<Option<(usize, bool, u64)>> = vec![None; n]; let mut ended: Vec<Option<(usize, u64, Option<bool>, Option<bool>, bool)>> = vec![None; n];
    let mut start_ok = vec![false; n]; let mut run_err = vec![false; n]; let mut panicked = vec![false; n];
    for (i, e) in log.iter().enumerate() { match e {
        Ev::CallStart { op, actor, kind, uid, to, t } => { start.insert(*op, (i, *actor, kind, *uid, *to, *t)); }
        Ev::CallEnd { op, res, t } => { end.insert(*op, (i, res.clone(), *t)); }
        Ev::HEnter { uid, t, .. } => henter.entry(*uid).or_default().push((i, *t)),
        Ev::HExit { uid, reply, t, .. } => { hexit.insert(*uid, (i, *reply, *t)); }
        Ev::StopEnter { actor, killed, t } => { if stop_enter[*actor].is_some() { v.push(format!("C04 on_stop twice actor {actor}")); } stop_enter[*actor] = Some((i, *killed, *t)); }
        Ev::Ended { actor, t, completed, killed, panic } => ended[*actor] = Some((i, *t, *completed, *killed, *panic)),
        Ev::StartExit { actor, out } => start_ok[*actor] = *out == Out::Ok,
        Ev::RunDone { actor, out, .. } => { if *out == Out::Err { run_err[*actor] = true } }
        _ => {} } }
    // panics: actor ended with panic
    for a in 0..n { if let Some((_, _, _, _, p)) = ended[a] { panicked[a] = p; } }
    let kills: Vec<Vec<usize>> = (0..n).map(|a| start.values().filter(|s| s.1 == a && s.2 == "kill").map(|s| s.0).collect()).collect();
    // self-kill positions (kill_self inside handler): treat HExit of kill_self msgs as kill points -- conservative: mark actor as 'killed issued'
    let mut selfkill = vec![false; n];
    for (ci, (target, ops)) in sc.clients.iter().enumerate() { let _ = ci; for o in ops { if o.kill_self && matches!(o.op, Op::Tell | Op::TellTo(_) | Op::Ask | Op::AskTo(_)) { selfkill[*target] = true; } } }
    let exempt = |a: usize| -> bool { !start_ok[a] || run_err[a] || panicked[a] || !kills[a].is_empty() || selfkill[a] };
    // C03 pending
    if !out.open_ops.is_empty() { v.push(format!("C03 pending ops at quiescence: {:?}", out.open_ops)); }
    for a in 0..n { if ended[a].is_none() { v.push(format!("C07 actor {a} never ended though all refs dropped")); } }
    // C01
    for (uid, hs) in &henter { if hs.len() > 1 { v.push(format!("C01 uid {uid} handled {} times", hs.len())); } }
    for (op, s) in &start { if let Some((_, res, _)) = end.get(op) {
        let tellfam = s.2 == "tell" || s.2 == "tell_to"; let askfam = s.2 == "ask" || s.2 == "ask_to";
        let handled = henter.contains_key(&s.3);
        if tellfam && *res != Res::Ok(None) && handled { v.push(format!("C01 failed tell uid {} was handled", s.3)); }
        if askfam && *res == Res::Send && handled { v.push(format!("C01 ask Err(Send) uid {} was handled", s.3)); }
        // C03 integrity
        if let Res::Ok(Some(val)) = res { match hexit.get(&s.3) { Some((_, reply, _)) if reply == val => {} other => v.push(format!("C03 ask uid {} returned {val} but handler logged {:?}", s.3, other)) } }
    } }
    // C01(3): tell Ok ended before first stop start / before last drop => handled before on_stop (non-exempt)
    for a in 0..n { if exempt(a) { continue; }
        let first_stop = start.values().filter(|s| s.1 == a && s.2 == "stop").map(|s| s.0).min();
        let last_drop = log.iter().enumerate().filter_map(|(i, e)| if let Ev::DropRef { actor, remaining: 0 } = e { if *actor == a { Some(i) } else { None } } else { None }).min();
        let cutoff = match (first_stop, last_drop) { (Some(x), Some(y)) => x.min(y), (Some(x), None) => x, (None, Some(y)) => y, _ => usize::MAX };
        for (op, s) in &start { if s.1 != a { continue; } if let Some((epos, res, _)) = end.get(op) { if (s.2 == "tell" || s.2 == "tell_to") && *res == Res::Ok(None) && *epos < cutoff {
            match henter.get(&s.3) { Some(h) => { if let Some((c, _, _)) = stop_enter[a] { if h[0].0 > c { v.push(format!("C01 uid {} handled after on_stop", s.3)); } } } None => v.push(format!("C01 accepted tell uid {} (actor {a}) never handled; cutoff {cutoff} epos {epos}", s.3)) } } } }
    }
    // C02 order
    for a in 0..n { let ops: Vec<_> = start.iter().filter(|(_, s)| s.1 == a && s.2 != "stop" && s.2 != "kill").collect();
        for (p, ps) in &ops { let Some((pe, pres, _)) = end.get(*p) else { continue }; if !((ps.2 == "tell" || ps.2 == "tell_to") && *pres == Res::Ok(None)) { continue; }
            for (_, qs) in &ops { if *pe < qs.0 { if let Some(hq) = henter.get(&qs.3) { match henter.get(&ps.3) { Some(hp) => if hp[0].0 > hq[0].0 { v.push(format!("C02 order uid {} after uid {}", ps.3, qs.3)); }, None => v.push(format!("C02 uid {} handled but earlier-accepted uid {} not", qs.3, ps.3)) } } } } }
        // nothing accepted after stop returned is handled
        for (sop, ss) in start.iter().filter(|(_, s)| s.1 == a && s.2 == "stop") { if let Some((se, _, _)) = end.get(sop) { for (_, qs) in &ops { if qs.0 > *se && henter.contains_key(&qs.3) { v.push(format!("C02 uid {} started after stop returned but handled", qs.3)); } } } let _ = ss; }
    }
    // C04/C05 basic: on_stop iff started && !panicked(before stop)
    for a in 0..n { let Some((_, _, completed, killed, panic)) = ended[a] else { continue };
        if !start_ok[a] { if stop_enter[a].is_some() { v.push(format!("C04 on_stop after failed start actor {a}")); } if sc.actors[a].start_out == Out::Err && completed != Some(false) { v.push(format!("C05 start err but result {:?}", completed)); } continue; }
        if let Some((_, k, _)) = stop_enter[a] { if !panic { if killed != Some(k) { v.push(format!("C05 killed flag {:?} != on_stop arg {k}", killed)); } let expect_completed = sc.actors[a].stop_out == Out::Ok && !run_err[a]; if completed != Some(expect_completed) { v.push(format!("C05 completed {:?} expected {expect_completed} actor {a}", completed)); } }
            if k && kills[a].iter().all(|kp| *kp > stop_enter[a].unwrap().0) && !selfkill[a] { v.push(format!("C04 killed=true without prior kill actor {a}")); } }
        else if !panic { v.push(format!("C04 actor {a} ended without on_stop and without panic")); }
    }
    // C06: kill returned before on_stop entry & actor started & not crashed => handlers after kill <= 1, killed=true
    for a in 0..n { if !start_ok[a] || run_err[a] || panicked[a] { continue; } let Some((c, k, _)) = stop_enter[a] else { continue };
        if let Some(kp) = kills[a].iter().min() { if *kp < c { let after = log.iter().enumerate().filter(|(i, e)| *i > *kp && matches!(e, Ev::HEnter { actor, .. } if *actor == a)).count(); if after > 1 { v.push(format!("C06 {after} handlers started after kill actor {a}")); } if !k { v.push(format!("C06 kill at {kp} before on_stop at {c} but killed=false actor {a}")); } } } }
    // C08: RunPoll with a certainly queued message
    for (i, e) in log.iter().enumerate() { if let Ev::RunPoll { actor, .. } = e {
        for (op, s) in &start { if s.1 != *actor { continue; } if let Some((epos, res, _)) = end.get(op) { if (s.2 == "tell" || s.2 == "tell_to") && *res == Res::Ok(None) && *epos < i { let h = henter.get(&s.3).map(|h| h[0].0); if h.map(|h| h > i).unwrap_or(stop_enter[*actor].map(|c| c.0 > i).unwrap_or(ended[*actor].map(|x| x.0 > i).unwrap_or(true))) { v.push(format!("C08 on_run polled at {i} while uid {} queued (actor {actor})", s.3)); } } } }
        if let Some(kp) = kills[*actor].iter().min() { if *kp < i && stop_enter[*actor].map(|c| c.0 > i).unwrap_or(false) { v.push(format!("C08 on_run polled at {i} after kill at {kp}")); } }
    } }
    // after Ok(false) no more polls
    for a in 0..n { let mut disabled = false; for e in log.iter() { match e { Ev::RunDone { actor, out: Out::False, .. } if *actor == a => disabled = true, Ev::RunPoll { actor, .. } if *actor == a && disabled => v.push(format!("C08 on_run polled after Ok(false) actor {a}")), _ => {} } } }
    // C09 prefix occupancy for actors receiving only tell/stop traffic
    for a in 0..n { let only_tell = start.values().filter(|s| s.1 == a).all(|s| matches!(s.2, "tell" | "tell_to" | "stop" | "kill")); if !only_tell { continue; }
        let mut occ: i64 = 0; let cap = sc.actors[a].cap as i64;
        for e in log.iter() { match e { Ev::CallEnd { op, res: Res::Ok(None), .. } => { if let Some(s) = start.get(op) { if s.1 == a && s.2 != "kill" { occ += 1; } } } Ev::HEnter { actor, .. } if *actor == a => occ -= 1, Ev::StopEnter { actor, .. } if *actor == a => break, Ev::Ended { actor, .. } if *actor == a => break, _ => {} } if occ > cap { v.push(format!("C09 occupancy {occ} > cap {cap} actor {a}")); break; } } }
    // C10
    for (op, s) in &start { if s.2 != "ask_to" && s.2 != "tell_to" { continue; } let Some((_, res, t)) = end.get(op) else { continue }; let d = s.5 + s.4;
        match res { Res::Timeout => { if *t < d || *t > d + 1 { v.push(format!("C10 timeout returned at {t}, deadline {d}")); } if s.2 == "ask_to" { if let Some((_, _, rt)) = hexit.get(&s.3) { if *rt < *t { v.push(format!("C10 Timeout though reply produced at {rt} < {t}")); } } } }
            Res::Ok(_) => { if *t > d + 1 { v.push(format!("C10 Ok returned late {t} > {d}")); } if s.2 == "ask_to" { if let Some((_, _, rt)) = hexit.get(&s.3) { if rt != t { v.push(format!("C10 Ok returned at {t} but reply at {rt}")); } } } }
            _ => { if *t > d + 1 { v.push(format!("C10 non-timeout error returned after deadline: {t} > {d} ({:?})", res)); } } } }
    // C13
    let mut exp: BTreeMap<(u64, String, String), i64> = BTreeMap::new(); let mut failures = 0u64;
    for (op, s) in &start { if let Some((_, res, _)) = end.get(op) { let fam = match s.2 { "tell" | "tell_to" => "tell", "ask" | "ask_to" | "probe" => "ask", _ => continue }; let reason = match res { Res::Send => "actor stopped", Res::Timeout => "timeout", Res::Receive => "reply dropped", _ => continue }; failures += 1; *exp.entry((out.ids[s.1], fam.to_string(), reason.to_string())).or_default() += 1; } }
    for e in log.iter() { if let Ev::DeadLetter { actor_id, op, reason } = e { *exp.entry((*actor_id, op.clone(), reason.clone())).or_default() -= 1; } }
    for (k, c) in &exp { if *c != 0 { v.push(format!("C13 dead letter mismatch {:?}: expected-observed = {c}", k)); } }
    if out.dl_delta != failures { v.push(format!("C13 counter delta {} != failures {failures}", out.dl_delta)); }
    // C07 negative: actor with a strong ref and no cause must answer the probe
    for (op, s) in &start { if s.2 != "probe" { continue; } let a = s.1; let Some((_, res, _)) = end.get(op) else { v.push(format!("C07 probe pending actor {a}")); continue };
        let stops = start.values().any(|x| x.1 == a && x.2 == "stop"); let cause = !start_ok[a] || run_err[a] || panicked[a] || !kills[a].is_empty() || selfkill[a] || stops;
        let hp = sc.clients.iter().any(|(t, ops)| *t == a && ops.iter().any(|o| o.hpanic)) || sc.actors[a].run.iter().any(|r| r.1 == Out::Panic);
        if !cause && !hp { match res { Res::Ok(Some(_)) => {} other => v.push(format!("C07 actor {a} held by a strong ref with no cause did not answer probe: {:?}", other)) } }
        if ended[a].map(|e| e.0 < s.0).unwrap_or(false) && matches!(res, Res::Ok(_)) { v.push(format!("C03 probe to ended actor {a} succeeded")); } }
    // C11 upgrade vs model at quiescent samples (final): model 0 => None
    for e in log.iter() { if let Ev::Sample { actor, upgrade, model_strong, finished, .. } = e { if *finished && *model_strong == 0 && *upgrade { v.push(format!("C11 upgrade Some with no strong refs actor {actor}")); } if *model_strong > 0 && !*upgrade { v.push(format!("C11 upgrade None though {model_strong} strong handles actor {actor}")); } } }
    v
}

fn main() {
    let n: u64 = std::env::args().nth(1).map(|s| s.parse().unwrap()).unwrap_or(2000);
    let base: u64 = std::env::args().nth(2).map(|s| s.parse().unwrap()).unwrap_or(0);
    std::panic::set_hook(Box::new(|_| {}));
    let slot = Arc::new(Mutex::new(None));
    tracing::subscriber::set_global_default(Sub { log: slot.clone() }).unwrap();
    let t = std::time::Instant::now(); let mut viol = 0; let mut events = 0usize; let mut kinds: BTreeMap<String, u64> = BTreeMap::new();
    for seed in base..base + n {
        let sc = gen(seed); let out = run(&sc, &slot); events += out.log.len();
        let vs = check(&sc, &out);
        if !vs.is_empty() { viol += 1; for x in &vs { *kinds.entry(x.split(' ').next().unwrap().to_string()).or_default() += 1; } if viol <= 3 { println!("seed {seed}: {:#?}", vs); if std::env::var("DUMP").is_ok() { println!("{:#?}", sc); for (i, e) in out.log.iter().enumerate() { println!("{i:4} {:?}", e); } } } }
    }
    println!("scenarios={n} with_violations={viol} kinds={:?} events={events} wall={:?}", kinds, t.elapsed());
}
