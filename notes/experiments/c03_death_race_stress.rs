// E4: ask racing with actor death on a multi-thread runtime: does any ask hang?
use rsactor::{spawn_with_mailbox_capacity, Actor, ActorRef, Message};
use std::sync::atomic::{AtomicU64, Ordering};
use std::sync::Arc;
use std::time::{Duration, Instant};

struct A;
struct Ping(u64);
impl Actor for A { type Args=(); type Error=anyhow::Error; async fn on_start(_:(), _:&ActorRef<Self>)->Result<Self,Self::Error>{Ok(A)} }
impl Message<Ping> for A { type Reply=u64; async fn handle(&mut self,m:Ping,_:&ActorRef<Self>)->u64{m.0} }

fn main() {
    let workers: usize = std::env::args().nth(1).map(|s| s.parse().unwrap()).unwrap_or(32);
    let secs: u64 = std::env::args().nth(2).map(|s| s.parse().unwrap()).unwrap_or(30);
    let askers: usize = std::env::args().nth(3).map(|s| s.parse().unwrap()).unwrap_or(6);
    let rt = tokio::runtime::Builder::new_multi_thread().worker_threads(workers).enable_time().build().unwrap();
    let rounds = Arc::new(AtomicU64::new(0));
    let asks = Arc::new(AtomicU64::new(0));
    let hangs = Arc::new(AtomicU64::new(0));
    let t0 = Instant::now();
    rt.block_on(async {
        let mut lanes = vec![];
        for lane in 0..(workers/ (askers+1)).max(1) {
            let rounds = rounds.clone(); let asks = asks.clone(); let hangs = hangs.clone();
            lanes.push(tokio::spawn(async move {
                let mut x: u64 = 0x9E3779B97F4A7C15 ^ (lane as u64);
                while t0.elapsed() < Duration::from_secs(secs) {
                    x ^= x << 13; x ^= x >> 7; x ^= x << 17;
                    let (r, jh) = spawn_with_mailbox_capacity::<A>((), 1 + (x % 3) as usize);
                    let mut hs = vec![]; let weak = ActorRef::downgrade(&r); let mut hung = 0;
                    for i in 0..askers {
                        let r = r.clone(); let asks = asks.clone();
                        hs.push(tokio::spawn(async move {
                            let mut n = 0u64;
                            loop {
                                match r.ask(Ping(n)).await { Ok(v) => { assert_eq!(v, n); n += 1; } Err(_) => break }
                                if i % 2 == 0 { tokio::task::yield_now().await; }
                            }
                            asks.fetch_add(n, Ordering::Relaxed);
                        }));
                    }
                    let spins = x % 2000;
                    for _ in 0..spins { std::hint::spin_loop(); }
                    if x & 1 == 0 { tokio::task::yield_now().await; }
                    if x & 2 == 0 { r.kill().unwrap(); } else { r.stop().await.unwrap(); }
                    drop(r);
                    let _ = jh.await;
                    for h in hs {
                        let mut h = h;
                        match tokio::time::timeout(Duration::from_secs(5), &mut h).await {
                            Ok(_) => {}
                            Err(_) => { hangs.fetch_add(1, Ordering::Relaxed); eprintln!("HANG: asker still pending 5s after actor end (round {})", rounds.load(Ordering::Relaxed)); h.abort(); let _ = h.await; hung += 1; }
                        }
                    }
                    if hung > 0 { tokio::time::sleep(Duration::from_millis(100)).await; eprintln!("  after aborting {} hung askers: weak.upgrade().is_some() = {} (true => a strong ref is stranded inside the dead mailbox)", hung, weak.upgrade().is_some()); }
                    rounds.fetch_add(1, Ordering::Relaxed);
                }
            }));
        }
        for l in lanes { l.await.unwrap(); }
    });
    println!("rounds={} asks_ok={} hangs={} in {:?}", rounds.load(Ordering::Relaxed), asks.load(Ordering::Relaxed), hangs.load(Ordering::Relaxed), t0.elapsed());
}
