//! MT engine: real threads. Multi-thread tokio runtime(s), std threads for the blocking API, a
//! heartbeat thread that measures scheduling lateness and per-round watchdogs. Same event model and
//! the same oracles as SIM (the log's push order is consistent with real time).

#![allow(deprecated)]

use crate::check::{self, Meta, Mode};
use crate::ev::*;
use crate::sa::*;
use crate::scen::*;
use crate::util::*;
use rsactor::{ActorRef, AskHandler, TellHandler};
use std::collections::{BTreeMap, BTreeSet};
use std::sync::atomic::{AtomicBool, AtomicU64, Ordering};
use std::sync::{Arc, Mutex};
use std::time::{Duration, Instant};

// ---------------------------------------------------------------------------------------------
// heartbeat
// ---------------------------------------------------------------------------------------------
pub struct Heartbeat {
    stop: Arc<AtomicBool>,
    /// maximal lateness (µs) of any beat, bucketed per 100 ms of process time
    late: Arc<Mutex<Vec<u64>>>,
    t0: Instant,
}

impl Heartbeat {
    pub fn start() -> Heartbeat {
        let stop = Arc::new(AtomicBool::new(false));
        let late = Arc::new(Mutex::new(Vec::new()));
        let t0 = Instant::now();
        let (s2, l2) = (stop.clone(), late.clone());
        std::thread::Builder::new()
            .name("heartbeat".into())
            .spawn(move || {
                while !s2.load(Ordering::Relaxed) {
                    let t = Instant::now();
                    std::thread::sleep(Duration::from_millis(5));
                    let lateness = t.elapsed().saturating_sub(Duration::from_millis(5)).as_micros() as u64;
                    let bucket = (t0.elapsed().as_millis() / 100) as usize;
                    let mut g = l2.lock().unwrap();
                    while g.len() <= bucket {
                        g.push(0);
                    }
                    if lateness > g[bucket] {
                        g[bucket] = lateness;
                    }
                }
            })
            .unwrap();
        Heartbeat { stop, late, t0 }
    }
    pub fn now_bucket(&self) -> usize {
        (self.t0.elapsed().as_millis() / 100) as usize
    }
    /// maximal lateness in µs since `from_bucket`
    pub fn max_late_since(&self, from_bucket: usize) -> u64 {
        let g = self.late.lock().unwrap();
        g.iter().skip(from_bucket.saturating_sub(1)).cloned().max().unwrap_or(0)
    }
    pub fn overall(&self) -> u64 {
        self.late.lock().unwrap().iter().cloned().max().unwrap_or(0)
    }
}
impl Drop for Heartbeat {
    fn drop(&mut self) {
        self.stop.store(true, Ordering::Relaxed);
    }
}

pub const STALL_US: u64 = 250_000;

// ---------------------------------------------------------------------------------------------
// failpoints (hook H2): thread-level delays only
// ---------------------------------------------------------------------------------------------
pub static FP_HITS: AtomicU64 = AtomicU64::new(0);
pub static FP_DELAYS: AtomicU64 = AtomicU64::new(0);
static FP_LEVEL: AtomicU64 = AtomicU64::new(0);

#[cfg(rsactor_verif)]
fn failpoint(_site: &'static str) {
    thread_local! { static X: std::cell::Cell<u64> = const { std::cell::Cell::new(0) }; }
    FP_HITS.fetch_add(1, Ordering::Relaxed);
    let lvl = FP_LEVEL.load(Ordering::Relaxed);
    if lvl == 0 {
        return;
    }
    let r = X.with(|x| {
        let mut v = x.get();
        if v == 0 {
            v = 0x9E3779B97F4A7C15 ^ (std::thread::current().id().as_u64_compat());
        }
        v ^= v << 13;
        v ^= v >> 7;
        v ^= v << 17;
        x.set(v);
        v
    });
    match r % 16 {
        0 | 1 => {
            FP_DELAYS.fetch_add(1, Ordering::Relaxed);
            for _ in 0..(r >> 8) % 3000 {
                std::hint::spin_loop();
            }
        }
        2 => {
            FP_DELAYS.fetch_add(1, Ordering::Relaxed);
            std::thread::yield_now();
        }
        3 if lvl >= 2 && (r >> 20) % 8 == 0 => {
            FP_DELAYS.fetch_add(1, Ordering::Relaxed);
            std::thread::sleep(Duration::from_micros(50 + (r >> 30) % 150));
        }
        _ => {}
    }
}

trait ThreadIdCompat {
    fn as_u64_compat(&self) -> u64;
}
impl ThreadIdCompat for std::thread::ThreadId {
    fn as_u64_compat(&self) -> u64 {
        let s = format!("{:?}", self);
        s.bytes().fold(1469598103934665603u64, |h, b| (h ^ b as u64).wrapping_mul(1099511628211))
    }
}

pub fn install_failpoints(level: u64) {
    FP_LEVEL.store(level, Ordering::Relaxed);
    #[cfg(rsactor_verif)]
    {
        rsactor::verif::set_failpoint_handler(failpoint);
    }
}

// ---------------------------------------------------------------------------------------------
// blocking calls at the client boundary
// ---------------------------------------------------------------------------------------------
pub const TINY: u64 = 1 << 62;
#[derive(Clone, Copy, Debug, PartialEq)]
pub enum BKind {
    Tell,
    Ask,
    TellTo(u64),
    AskTo(u64),
    DepTell(u64),
    DepAsk(u64),
    ErasedTell(Option<u64>),
    ErasedAsk(Option<u64>),
}

fn rres<T>(r: rsactor::Result<T>, f: impl FnOnce(T) -> Rep) -> Res {
    match r {
        Ok(v) => Res::Ok(f(v)),
        Err(e) => {
            let retry = e.is_retryable();
            if retry != matches!(e, rsactor::Error::Timeout { .. }) {
                return Res::Other(format!("is_retryable()={retry} for {e:?}"));
            }
            map_err(&e)
        }
    }
}

/// Blocking tell/ask of an `MU` message through `r`; returns (result, elapsed).
pub fn send_blocking(sh: &Shared, ctx: Ctx, actor: usize, r: &ActorRef<SA>, kind: BKind, body: Body) -> (Res, Duration) {
    // values at or above TINY (other than u64::MAX = Duration::MAX) encode a duration in nanoseconds below the timer's resolution
    let d = |ms: u64| Some(if ms == u64::MAX { Duration::MAX } else if ms >= TINY { Duration::from_nanos(ms - TINY) } else { Duration::from_millis(ms) });
    let (ok, to) = match kind {
        BKind::Tell => (OpKind::BTell, 0),
        BKind::Ask => (OpKind::BAsk, 0),
        BKind::TellTo(ms) => (OpKind::BTellTo, ms),
        BKind::AskTo(ms) => (OpKind::BAskTo, ms),
        BKind::DepTell(_) => (OpKind::DepTell, 0),
        BKind::DepAsk(_) => (OpKind::DepAsk, 0),
        BKind::ErasedTell(Some(ms)) => (OpKind::BTellTo, ms),
        BKind::ErasedTell(None) => (OpKind::BTell, 0),
        BKind::ErasedAsk(Some(ms)) => (OpKind::BAskTo, ms),
        BKind::ErasedAsk(None) => (OpKind::BAsk, 0),
    };
    let to = if to != u64::MAX && to >= TINY { 0 } else { to };
    let g = CallGuard::start(sh, actor, ok, 'U', body.uid, to, ctx);
    let t = Instant::now();
    let res = match kind {
        BKind::Tell => rres(r.blocking_tell(MU(body), None), |_| Rep::None),
        BKind::Ask => rres(r.blocking_ask(MU(body), None), Rep::U),
        BKind::TellTo(ms) => rres(r.blocking_tell(MU(body), d(ms)), |_| Rep::None),
        BKind::AskTo(ms) => rres(r.blocking_ask(MU(body), d(ms)), Rep::U),
        BKind::DepTell(ms) => rres(r.tell_blocking(MU(body), d(ms)), |_| Rep::None),
        BKind::DepAsk(ms) => rres(r.ask_blocking(MU(body), d(ms)), Rep::U),
        BKind::ErasedTell(to) => {
            let h: Box<dyn TellHandler<MU>> = r.into();
            rres(h.blocking_tell(MU(body), to.and_then(d)), |_| Rep::None)
        }
        BKind::ErasedAsk(to) => {
            let h: Box<dyn AskHandler<MU, u64>> = r.into();
            rres(h.blocking_ask(MU(body), to.and_then(d)), Rep::U)
        }
    };
    let el = t.elapsed();
    (g.end(res), el)
}

// ---------------------------------------------------------------------------------------------
// shared accounting
// ---------------------------------------------------------------------------------------------
#[derive(Default)]
pub struct Tot {
    pub rounds: u64,
    pub events: u64,
    pub obl: BTreeMap<&'static str, u64>,
    pub viol: Vec<(String, String, u64, String)>, // (clause, msg, seed, profile)
    pub hashes: BTreeSet<u64>,
    pub nontrivial: BTreeMap<String, u64>,
    pub inconclusive: Vec<String>,
    pub failures: u64,
    pub samples: Vec<String>,
    pub extra: BTreeMap<String, u64>,
}

pub struct RoundOut {
    pub log: Vec<Ev>,
    pub ids: Vec<u64>,
    pub caps: Vec<usize>,
    pub hung_clients: usize,
    pub hung_actors: usize,
    pub stalled: bool,
}

static UID: AtomicU64 = AtomicU64::new(1);
fn uid() -> u64 {
    UID.fetch_add(1, Ordering::Relaxed)
}

fn spin(n: u64) {
    for _ in 0..n {
        std::hint::spin_loop();
    }
}

fn simple_spec(r: &mut Rng, on_run: bool) -> ActorSpec {
    let cap = match r.below(6) {
        0 => Some(1),
        1 => Some(2),
        2 => Some(3),
        3 => Some(4),
        4 => Some(8),
        _ => None,
    };
    let mut run = vec![];
    if on_run {
        for _ in 0..r.range(1, 4) {
            run.push(RunStep {
                segs: vec![1],
                steps: vec![],
                out: Out::True,
            });
        }
        run.push(RunStep {
            segs: vec![],
            steps: vec![],
            out: if r.chance(20) { Out::Err } else { Out::False },
        });
    }
    ActorSpec {
        cap,
        start: HookScript {
            delay: 0,
            steps: vec![],
            out: Out::Ok,
        },
        run,
        stop: HookScript {
            delay: 0,
            steps: if r.chance(20) { vec![Step::Busy(r.below(80))] } else { vec![] },
            out: if r.chance(5) { Out::Err } else { Out::Ok },
        },
        run_err_when_handled: None,
        in_peers: false,
    }
}

fn msg_body(r: &mut Rng, allow_panic: bool) -> Body {
    let mut steps = vec![];
    match r.below(10) {
        0..=3 => {}
        4..=6 => steps.push(Step::Busy(r.below(60))),
        7 => steps.push(Step::Yield),
        8 => steps.push(Step::Sleep(1)),
        _ => steps.push(Step::CheckIdent),
    }
    if allow_panic && r.chance(1) {
        steps.push(Step::Panic);
    }
    Body {
        uid: uid(),
        flags: 0,
        steps,
    }
}

const LONG: u64 = 30_000; // ms: timeouts that never fire in a healthy round

/// One round of general traffic: concurrent async and blocking clients, then a termination cause at a random instant.
async fn round_general(seed: u64, hb: &Heartbeat, with_readers: bool, death_race: bool) -> RoundOut {
    let mut r = Rng::new(seed);
    let nact = if death_race { 1 } else { 1 + r.below(2) as usize };
    let sh = Shared::new(nact, 1, false, false, seed);
    let mut refs = vec![];
    let mut watchers = vec![];
    let mut caps = vec![];
    for i in 0..nact {
        let with_run = !death_race && r.chance(30);
        let spec = simple_spec(&mut r, with_run);
        caps.push(spec.cap.unwrap_or(32));
        let (rf, jh) = spawn_sa(&sh, i, &spec);
        sh.model_add(i, 1, "spawner");
        watchers.push(tokio::spawn(watch(sh.clone(), i, jh)));
        refs.push(rf);
    }
    let ids = sh.ids.lock().unwrap().clone();
    let bucket0 = hb.now_bucket();
    let mut clients: Vec<tokio::task::JoinHandle<()>> = vec![];
    let ncl = if death_race { r.range(4, 8) } else { r.range(2, 6) };
    for c in 0..ncl as usize {
        let target = r.below(nact as u64) as usize;
        let rf = refs[target].clone();
        sh.model_add(target, 1, "slot-init");
        let sh2 = sh.clone();
        let blocking = r.chance(if death_race { 25 } else { 35 });
        let mut cr = Rng::new(r.next());
        let nops = if death_race { 100 } else { r.range(2, 8) };
        let ctx = Ctx::Client(c);
        if blocking {
            clients.push(tokio::task::spawn_blocking(move || {
                for _ in 0..nops {
                    spin(cr.below(200));
                    let kind = match cr.below(if death_race { 4 } else { 8 }) {
                        0 => BKind::Ask,
                        1 => BKind::AskTo(LONG),
                        2 => BKind::ErasedAsk(None),
                        3 => BKind::DepAsk(1),
                        4 => BKind::Tell,
                        5 => BKind::TellTo(LONG),
                        6 => BKind::DepTell(1),
                        _ => BKind::ErasedTell(Some(LONG)),
                    };
                    let body = msg_body(&mut cr, !death_race);
                    let (res, _) = send_blocking(&sh2, ctx, target, &rf, kind, body);
                    if death_race && !res.is_ok() {
                        break;
                    }
                }
                drop(rf);
                sh2.model_add(target, -1, "drop");
            }));
        } else {
            clients.push(tokio::spawn(async move {
                let h = H::D(rf);
                let erased = if cr.chance(30) { Some(H::from_ref_erased(h.as_ref_direct().unwrap().clone(), &sh2)) } else { None };
                for i in 0..nops {
                    spin(cr.below(200));
                    if cr.chance(30) {
                        tokio::task::yield_now().await;
                    }
                    let (kind, mty) = match cr.below(if death_race { 5 } else { 10 }) {
                        0 | 1 => (SendKind::Ask, MTy::U),
                        2 => (SendKind::AskTo(LONG), MTy::S),
                        3 => (SendKind::Ask, MTy::R),
                        4 => (SendKind::AskJoin, MTy::J),
                        5 | 6 | 7 => (SendKind::Tell, MTy::U),
                        8 => (SendKind::TellTo(LONG), MTy::N),
                        _ => (SendKind::Tell, MTy::R),
                    };
                    let body = msg_body(&mut cr, !death_race);
                    let via = match (&erased, i % 2) {
                        (Some(e), 0) => e,
                        _ => &h,
                    };
                    let res = send_via(&sh2, ctx, target, via, kind, mty, body).await;
                    if death_race && !res.is_ok() {
                        break;
                    }
                }
                drop(erased);
                drop(h);
                sh2.model_add(target, -1, "drop");
            }));
        }
    }
    // metric readers
    let stop_readers = Arc::new(AtomicBool::new(false));
    #[allow(unused_mut)]
    let mut readers: Vec<std::thread::JoinHandle<()>> = vec![];
    #[cfg(feature = "f_metrics")]
    if with_readers {
        const NAMES: [&str; 3] = ["reader-0", "reader-1", "reader-2"];
        for (k, name) in NAMES.iter().enumerate().take(1 + r.below(3) as usize) {
            let rf = refs[k % nact].clone();
            let a = k % nact;
            let sh2 = sh.clone();
            let stop = stop_readers.clone();
            sh.model_add(a, 1, "slot-init");
            readers.push(std::thread::spawn(move || {
                let mut n = 0;
                while !stop.load(Ordering::Relaxed) && n < 200 {
                    crate::sim::metrics_event(&sh2, a, &rf, name);
                    n += 1;
                    std::thread::sleep(Duration::from_micros(100));
                }
                // final read after the round is over is done by the main task through its own handle
                drop(rf);
                sh2.model_add(a, -1, "drop");
            }));
        }
    }
    let _ = with_readers;
    // terminator
    spin(r.below(3000));
    if r.chance(50) {
        tokio::task::yield_now().await;
    }
    if r.chance(30) {
        tokio::time::sleep(Duration::from_micros(r.below(600))).await;
    }
    let mut keep: Vec<Option<ActorRef<SA>>> = vec![];
    for (i, rf) in refs.iter().enumerate() {
        let h = H::D(rf.clone());
        match r.below(if death_race { 5 } else { 4 }) {
            0 => {
                kill_via(&sh, Ctx::Main, i, &h);
            }
            1 | 2 => {
                stop_via(&sh, Ctx::Main, i, &h).await;
            }
            4 => {
                // crash it: a message whose handler panics
                let b = Body {
                    uid: uid(),
                    flags: 0,
                    steps: vec![Step::Panic],
                };
                send_via(&sh, Ctx::Main, i, &h, SendKind::Tell, MTy::U, b).await;
            }
            _ => {}
        }
        drop(h);
        keep.push(None);
    }
    // retain one strong handle through the end (post-mortem metric reads) only for actors that end regardless of references
    for (i, rf) in refs.iter().enumerate() {
        let x_has_cause = sh.log.snapshot().iter().any(|e| matches!(&e.k, K::CallStart { actor, kind: OpKind::Kill | OpKind::Stop, .. } if *actor == i));
        if with_readers && x_has_cause {
            keep[i] = Some(rf.clone());
            sh.model_add(i, 1, "survivor");
        }
    }
    for (i, rf) in refs.drain(..).enumerate() {
        drop(rf);
        sh.model_add(i, -1, "drop");
    }
    // join clients under a watchdog
    let mut hung_clients = 0;
    for c in clients {
        let mut c = c;
        if tokio::time::timeout(Duration::from_secs(10), &mut c).await.is_err() {
            hung_clients += 1;
            c.abort();
        }
    }
    let mut hung_actors = 0;
    for w in watchers {
        let mut w = w;
        if tokio::time::timeout(Duration::from_secs(10), &mut w).await.is_err() {
            hung_actors += 1;
            w.abort();
        }
    }
    stop_readers.store(true, Ordering::Relaxed);
    for t in readers {
        let _ = tokio::task::spawn_blocking(move || t.join()).await;
    }
    for (i, k) in keep.iter().enumerate() {
        if let Some(rf) = k {
            if hung_actors == 0 {
                // the JoinHandle has resolved: is_alive must be false through a retained strong handle, upgrade still works
                let w = ActorRef::downgrade(rf);
                sh.log.push(K::Sample {
                    actor: i,
                    phase: "post-mortem",
                    finished: true,
                    alive: Some(rf.is_alive()),
                    weak_alive: w.is_alive(),
                    upgrade: w.upgrade().is_some(),
                    model: sh.model_of(i),
                });
            }
        }
    }
    #[cfg(feature = "f_metrics")]
    for (i, k) in keep.iter().enumerate() {
        if let Some(rf) = k {
            if hung_actors == 0 {
                crate::sim::metrics_event(&sh, i, rf, "survivor-strong");
                let w = ActorRef::downgrade(rf);
                if let Some(up) = w.upgrade() {
                    crate::sim::metrics_event(&sh, i, &up, "weak-upgraded");
                }
            }
        }
    }
    for (i, k) in keep.drain(..).enumerate() {
        if k.is_some() {
            drop(k);
            sh.model_add(i, -1, "drop");
        }
    }
    let stalled = hb.max_late_since(bucket0) > STALL_US;
    let log = sh.log.snapshot();
    for id in ids.iter() {
        reg_remove(*id);
    }
    RoundOut {
        log,
        ids,
        caps,
        hung_clients,
        hung_actors,
        stalled,
    }
}

impl H {
    pub fn from_ref_erased(r: ActorRef<SA>, sh: &Shared) -> H {
        H::E(Box::new(ES::from_ref(r, sh)))
    }
}

fn mt_meta(out: &RoundOut, tainted: bool) -> Meta {
    Meta {
        mode: Mode::Mt,
        caps: out.caps.clone(),
        ids: out.ids.clone(),
        dl_delta: None,
        deadlock_feature: false,
        metrics_feature: cfg!(feature = "f_metrics"),
        graph_hook: false,
        tainted,
    }
}

fn absorb(tot: &Mutex<Tot>, prop: &str, profile: &str, seed: u64, out: &RoundOut, tainted: &AtomicBool) {
    let mut t = tot.lock().unwrap();
    t.rounds += 1;
    t.events += out.log.len() as u64;
    if out.stalled && (out.hung_clients > 0 || out.hung_actors > 0) {
        t.inconclusive.push(format!("round {seed}: watchdog fired while the machine was stalled (heartbeat late > {} ms)", STALL_US / 1000));
        tainted.store(true, Ordering::Relaxed);
        return;
    }
    if out.hung_clients > 0 || out.hung_actors > 0 {
        tainted.store(true, Ordering::Relaxed);
    }
    let meta = mt_meta(out, tainted.load(Ordering::Relaxed));
    let f = check::check_all(&out.log, &meta);
    let mut props_here = BTreeSet::new();
    for (k, v) in &f.obl {
        *t.obl.entry(k).or_default() += v;
        props_here.insert(k[..3].to_string());
    }
    if out.log.iter().any(|e| matches!(&e.k, K::CallStart { kind, .. } if kind.blocking())) {
        props_here.insert("C17".to_string());
    }
    let tr = crate::trace::canon_trace(&out.log, &out.ids);
    // MT traces contain wall-clock stamps; hash only the order-insensitive projection (kinds and results)
    let mut proj: Vec<String> = tr.iter().map(|s| s.split_once(' ').map(|x| x.1.to_string()).unwrap_or_default()).collect();
    proj.retain(|s| !s.starts_with("RefOp") && !s.starts_with("Sample"));
    let h = crate::trace::hash_trace(&proj);
    for p in &props_here {
        *t.nontrivial.entry(p.clone()).or_default() += 1;
    }
    if props_here.contains(prop) || prop == "all" {
        t.hashes.insert(h);
    }
    t.failures += out
        .log
        .iter()
        .filter(|e| matches!(&e.k, K::CallEnd { res, .. } if matches!(res, Res::Send | Res::Timeout | Res::Receive)))
        .count() as u64;
    for v in &f.viol {
        let p = &v.clause[..3];
        let blocking_related = v.msg.contains("BTell") || v.msg.contains("BAsk") || v.msg.contains("DepTell") || v.msg.contains("DepAsk") || v.msg.contains("blocking");
        if prop == "all" || p == prop || (prop == "C17" && blocking_related) {
            if t.viol.len() < 50 {
                let clause = if prop == "C17" && p != "C17" { format!("C17.via.{}", v.clause) } else { v.clause.to_string() };
                t.viol.push((clause, v.msg.clone(), seed, profile.to_string()));
            }
        }
    }
    if t.samples.len() < 2 && props_here.contains(prop) {
        let evs: Vec<String> = crate::trace::render(&out.log).into_iter().take(30).collect();
        t.samples.push(
            JObj::new()
                .s("engine", "mt")
                .s("profile", profile)
                .n("seed", seed)
                .n("events", out.log.len() as u64)
                .raw("first_events", &jarr_str(&evs))
                .build(),
        );
    }
}

// ---------------------------------------------------------------------------------------------
// blocking profile (C17, blocking side of C10 and C13)
// ---------------------------------------------------------------------------------------------
static SERIALIZATION_CHECKED: AtomicU64 = AtomicU64::new(0);

fn round_blocking(rt: &tokio::runtime::Runtime, seed: u64, hb: &Heartbeat, tot: &Mutex<Tot>, prop: &str) {
    let mut r = Rng::new(seed);
    let sh = Shared::new(1, 1, false, false, seed);
    let cap = 1 + r.below(3) as usize;
    let spec = ActorSpec {
        cap: Some(cap),
        start: HookScript::default(),
        run: vec![],
        stop: HookScript::default(),
        run_err_when_handled: None,
        in_peers: false,
    };
    let (a, jh) = {
        let _g = rt.enter();
        spawn_sa(&sh, 0, &spec)
    };
    let watcher = rt.spawn(watch(sh.clone(), 0, jh));
    let ids = sh.ids.lock().unwrap().clone();
    let bucket0 = hb.now_bucket();
    let mut v: Vec<(String, String)> = vec![];
    let mut o: BTreeMap<&'static str, u64> = BTreeMap::new();
    // 1. hold the actor in a gated handler and fill the mailbox
    let gate_uid = uid();
    let (res, _) = send_blocking(&sh, Ctx::Main, 0, &a, BKind::Tell, Body { uid: gate_uid, flags: 0, steps: vec![Step::Gate(0)] });
    assert!(res.is_ok());
    let t = Instant::now();
    while !sh.log.snapshot().iter().any(|e| matches!(&e.k, K::HEnter { uid, .. } if *uid == gate_uid)) {
        std::thread::yield_now();
        if t.elapsed() > Duration::from_secs(10) {
            break;
        }
    }
    for _ in 0..cap {
        send_blocking(&sh, Ctx::Main, 0, &a, BKind::Tell, Body::plain(uid()));
    }
    // 1b. (first round of a run only) a long timed blocking call in flight must not delay another thread's short one
    if SERIALIZATION_CHECKED.fetch_add(1, Ordering::Relaxed) == 0 {
        let (a1, sh1) = (a.clone(), sh.clone());
        let long = std::thread::spawn(move || send_blocking(&sh1, Ctx::Client(40), 0, &a1, BKind::AskTo(3000), Body::plain(uid())));
        std::thread::sleep(Duration::from_millis(60));
        let (a2, sh2) = (a.clone(), sh.clone());
        let short = std::thread::spawn(move || send_blocking(&sh2, Ctx::Client(41), 0, &a2, BKind::TellTo(20), Body::plain(uid())));
        // ... and must not make a timed blocking send into the EMPTY mailbox of an unrelated actor wait at all
        {
            let handled = Arc::new(AtomicU64::new(0));
            let (idle, ijh) = {
                let _g = rt.enter();
                rsactor::spawn_with_mailbox_capacity::<ab::A>(ab::Args { handled, start_ms: 0, ticks: false }, 4)
            };
            std::thread::sleep(Duration::from_millis(5));
            let t = Instant::now();
            let r1 = idle.blocking_tell(ab::Work(1, 0), Some(Duration::from_secs(5)));
            let e1 = t.elapsed();
            let r2 = idle.blocking_ask(ab::Work(2, 0), Some(Duration::from_secs(5)));
            let e2 = t.elapsed();
            *o.entry("C09.no_idle_wait").or_default() += 2;
            if (r1.is_err() || r2.is_err() || e2 > Duration::from_millis(1500)) && hb.max_late_since(bucket0) < STALL_US {
                v.push(("C09.no_idle_wait".into(), format!("[blocking] while another thread's blocking_ask(Some(3 s)) was waiting on a busy actor, blocking_tell/blocking_ask(Some(5 s)) into the empty mailbox (capacity 4) of an idle, unrelated actor returned {r1:?} after {e1:?} and {r2:?} after {e2:?}: a send waited although a slot was free")));
            }
            let _ = idle.kill();
            let _ = rt.block_on(async { tokio::time::timeout(Duration::from_secs(5), ijh).await });
        }
        let (sres, sel) = short.join().unwrap();
        *o.entry("C17.deadline").or_default() += 1;
        *o.entry("C10.independent_deadlines").or_default() += 1;
        if sres != Res::Timeout {
            v.push(("C17.deadline".into(), format!("blocking_tell(Some(20 ms)) against a full mailbox returned {sres:?}")));
        } else if sel > Duration::from_millis(2020) && hb.max_late_since(bucket0) < STALL_US {
            v.push(("C10.late".into(), format!("blocking_tell(Some(20 ms)) returned its Timeout only after {sel:?} while another thread's blocking_ask(Some(3 s)) was in flight: timed blocking calls delay each other")));
        }
        let (lres, lel) = long.join().unwrap();
        if lres != Res::Timeout || lel < Duration::from_millis(3000) {
            v.push(("C10.early".into(), format!("blocking_ask(Some(3 s)) against a full, gated mailbox returned {lres:?} after {lel:?}")));
        }
    }
    // 2. timed blocking calls against the full mailbox: must time out, never early, and return by deadline + slack
    let to_ms = 4 + 2 * r.below(16);
    let mut ths = vec![];
    for k in 0..4u64 {
        let (a, sh2) = (a.clone(), sh.clone());
        ths.push(std::thread::spawn(move || {
            let kind = match k {
                0 => BKind::TellTo(to_ms),
                1 => BKind::AskTo(to_ms),
                2 => BKind::ErasedTell(Some(to_ms)),
                _ => BKind::ErasedAsk(Some(to_ms)),
            };
            let (res, el) = send_blocking(&sh2, Ctx::Client(k as usize), 0, &a, kind, Body::plain(uid()));
            (kind, res, el)
        }));
    }
    // 3. deprecated aliases ignore their timeout: they must still be waiting after the others timed out, and succeed once the gate opens
    let dep_tell = {
        let (a, sh2) = (a.clone(), sh.clone());
        std::thread::spawn(move || send_blocking(&sh2, Ctx::Client(10), 0, &a, BKind::DepTell(1), Body::plain(uid())))
    };
    // 4. the timeout variants may be called from inside a runtime worker
    let inside = {
        let (a, sh2) = (a.clone(), sh.clone());
        rt.spawn(async move { send_blocking(&sh2, Ctx::Client(11), 0, &a, BKind::TellTo(3), Body::plain(uid())) })
    };
    let inside2 = {
        let (a, sh2) = (a.clone(), sh.clone());
        rt.spawn(async move { send_blocking(&sh2, Ctx::Client(12), 0, &a, BKind::AskTo(3), Body::plain(uid())) })
    };
    // 4b. ... and from async code running on a *current-thread* runtime (whose only thread is blocked by the call)
    for kind in [BKind::TellTo(3), BKind::AskTo(3)] {
        let (a2, sh2) = (a.clone(), sh.clone());
        let (tx, rx) = std::sync::mpsc::channel();
        std::thread::spawn(move || {
            let ct = tokio::runtime::Builder::new_current_thread().enable_time().build().unwrap();
            let r = ct.block_on(async { send_blocking(&sh2, Ctx::Client(13), 0, &a2, kind, Body::plain(uid())) });
            let _ = tx.send(r);
        });
        *o.entry("C17.inside_runtime").or_default() += 1;
        match rx.recv_timeout(Duration::from_secs(10)) {
            Ok((res, _)) => {
                if res != Res::Timeout {
                    v.push(("C17.inside_runtime".into(), format!("{kind:?} from async code on a current-thread runtime against a full mailbox returned {res:?}")));
                }
            }
            Err(_) => {
                if hb.max_late_since(bucket0) < STALL_US {
                    v.push(("C17.deadline".into(), format!("[ct-runtime] {kind:?} called from async code on a current-thread runtime did not return within 10 s of its 3 ms timeout")));
                }
            }
        }
    }
    // 4d. ... and from async code inside a LocalSet driven by a multi-thread runtime (run_until future and spawn_local task):
    // an async context in which tokio forbids block_in_place although the runtime flavour is multi-thread
    for (label, local_task) in [("a LocalSet::block_on future", false), ("a spawn_local task", true)] {
        for kind in [BKind::TellTo(3), BKind::AskTo(3), BKind::ErasedAsk(Some(3))] {
            let (a2, sh2) = (a.clone(), sh.clone());
            let (tx, rx) = std::sync::mpsc::channel();
            let h = rt.handle().clone();
            std::thread::spawn(move || {
                let r = std::panic::catch_unwind(std::panic::AssertUnwindSafe(|| {
                    let _g = h.enter();
                    let ls = tokio::task::LocalSet::new();
                    h.block_on(ls.run_until(async move {
                        if local_task {
                            tokio::task::spawn_local(async move { send_blocking(&sh2, Ctx::Client(14), 0, &a2, kind, Body::plain(uid())) }).await.map_err(|_| ())
                        } else {
                            Ok(send_blocking(&sh2, Ctx::Client(14), 0, &a2, kind, Body::plain(uid())))
                        }
                    }))
                }));
                let _ = tx.send(r);
            });
            *o.entry("C17.inside_runtime").or_default() += 1;
            match rx.recv_timeout(Duration::from_secs(10)) {
                Ok(Ok(Ok((Res::Timeout, _)))) => {}
                Ok(Ok(Ok((res, _)))) => v.push(("C17.inside_runtime".into(), format!("{kind:?} from {label} (multi-thread runtime) against a full mailbox returned {res:?}"))),
                Ok(_) => v.push(("C17.inside_runtime".into(), format!("{kind:?} called from {label} (multi-thread runtime) panicked: {:?}", PANICS.lock().unwrap().last()))),
                Err(_) => {
                    if hb.max_late_since(bucket0) < STALL_US {
                        v.push(("C17.deadline".into(), format!("[local-set] {kind:?} called from {label} did not return within 10 s of its 3 ms timeout")));
                    }
                }
            }
        }
    }
    // 4c. the type-erased forwarders must behave like the direct calls from inside a runtime as well
    for (label, ctk) in [("runtime worker", false), ("current-thread runtime", true)] {
        for kind in [BKind::ErasedTell(Some(3)), BKind::ErasedAsk(Some(3))] {
            let (a2, sh2) = (a.clone(), sh.clone());
            let (tx, rx) = std::sync::mpsc::channel();
            if ctk {
                std::thread::spawn(move || {
                    let ct = tokio::runtime::Builder::new_current_thread().enable_time().build().unwrap();
                    let r = std::panic::catch_unwind(std::panic::AssertUnwindSafe(|| ct.block_on(async { send_blocking(&sh2, Ctx::Client(15), 0, &a2, kind, Body::plain(uid())) })));
                    let _ = tx.send(r.map_err(|_| ()));
                });
            } else {
                rt.spawn(async move {
                    let r = std::panic::catch_unwind(std::panic::AssertUnwindSafe(|| send_blocking(&sh2, Ctx::Client(16), 0, &a2, kind, Body::plain(uid()))));
                    let _ = tx.send(r.map_err(|_| ()));
                });
            }
            *o.entry("C16.blocking").or_default() += 1;
            let msg = match rx.recv_timeout(Duration::from_secs(10)) {
                Ok(Ok((Res::Timeout, _))) => None,
                Ok(Ok((res, _))) => Some(format!("erased {kind:?} called from a {label} against a full mailbox returned {res:?} (the direct call returns Timeout)")),
                Ok(Err(())) => Some(format!("erased {kind:?} called from a {label} panicked (the direct call returns Timeout): {:?}", LAST_PANIC.with(|l| l.borrow().clone()))),
                Err(_) => {
                    if hb.max_late_since(bucket0) < STALL_US {
                        Some(format!("erased {kind:?} called from a {label} did not return within 10 s of its 3 ms timeout (the direct call returns Timeout)"))
                    } else {
                        None
                    }
                }
            };
            if let Some(m) = msg {
                v.push(("C16.blocking".into(), m.clone()));
                v.push(("C17.inside_runtime".into(), m));
            }
        }
    }
    for t in ths {
        let (kind, res, el) = t.join().unwrap();
        *o.entry("C17.deadline").or_default() += 1;
        if res != Res::Timeout {
            v.push(("C17.deadline".into(), format!("{kind:?} against a full mailbox held by a gated handler returned {res:?} instead of Timeout")));
        } else {
            if el < Duration::from_millis(to_ms) {
                v.push(("C10.early".into(), format!("{kind:?} returned Timeout after {el:?}, before its {to_ms} ms timeout elapsed")));
            }
            if el > Duration::from_millis(to_ms + 2000) && hb.max_late_since(bucket0) < STALL_US {
                v.push(("C17.deadline".into(), format!("{kind:?} with a {to_ms} ms timeout returned only after {el:?}")));
            }
        }
    }
    for (name, h) in [("blocking_tell", inside), ("blocking_ask", inside2)] {
        *o.entry("C17.inside_runtime").or_default() += 1;
        let joined = rt.block_on(async { tokio::time::timeout(Duration::from_secs(10), h).await });
        let joined = match joined {
            Ok(j) => j,
            Err(_) => {
                if hb.max_late_since(bucket0) < STALL_US {
                    v.push(("C17.deadline".into(), format!("[worker-blocked] {name}(Some(3 ms)) called from a runtime worker against a full mailbox did not return within 10 s")));
                    v.push(("C10.late".into(), format!("[worker-blocked] {name}(Some(3 ms)) called from a runtime worker did not return within 10 s of its deadline")));
                }
                continue;
            }
        };
        match joined {
            Ok((res, _)) => {
                if res != Res::Timeout {
                    v.push(("C17.inside_runtime".into(), format!("{name}(Some(t)) from a runtime worker against a full mailbox returned {res:?}")));
                }
            }
            Err(e) => v.push(("C17.inside_runtime".into(), format!("{name}(Some(t)) called from inside a runtime worker panicked: {e}"))),
        }
    }
    // 4e. degenerate timeouts (zero, below the timer's 1 ms resolution), direct and type-erased, from a plain thread and from a
    // thread that has entered the runtime: the mailbox is full, so each must return Timeout promptly - a timeout that is too small
    // to matter is still a deadline
    {
        let mut waits = vec![];
        for (ti, dur) in [Duration::ZERO, Duration::from_micros(200), Duration::from_micros(999), Duration::from_nanos(1)].into_iter().enumerate() {
            for which in 0..4usize {
                let entered = (ti + which) % 2 == 1;
                let (a2, sh2) = (a.clone(), sh.clone());
                let h = rt.handle().clone();
                let (tx, rx) = std::sync::mpsc::channel();
                let enc = TINY + dur.as_nanos() as u64;
                std::thread::spawn(move || {
                    let _g = if entered { Some(h.enter()) } else { None };
                    let kind = match which {
                        0 => BKind::TellTo(enc),
                        1 => BKind::AskTo(enc),
                        2 => BKind::ErasedTell(Some(enc)),
                        _ => BKind::ErasedAsk(Some(enc)),
                    };
                    let _ = tx.send(send_blocking(&sh2, Ctx::Client(20 + which), 0, &a2, kind, Body::plain(uid())));
                });
                waits.push((dur, which, entered, rx));
            }
        }
        for (dur, which, entered, rx) in waits {
            let name = ["blocking_tell", "blocking_ask", "erased blocking_tell", "erased blocking_ask"][which];
            let clause = if which < 2 { "C17.deadline" } else { "C16.blocking" };
            let place = if entered { "a thread that has entered the runtime" } else { "a plain thread" };
            *o.entry(clause).or_default() += 1;
            *o.entry("C10.tiny_timeouts").or_default() += 1;
            match rx.recv_timeout(Duration::from_secs(5)) {
                Ok((Res::Timeout, _)) => {}
                Ok((res, el)) => v.push((clause.into(), format!("[tiny-timeout] {name}(Some({dur:?})) from {place} against a full mailbox behind a gated handler returned {res:?} after {el:?} (expected Timeout)"))),
                Err(_) => {
                    if hb.max_late_since(bucket0) < STALL_US {
                        v.push((clause.into(), format!("[tiny-timeout] {name}(Some({dur:?})) from {place} against a full mailbox behind a gated handler had not returned 5 s later: a timeout of {dur:?} was treated as no timeout")));
                    }
                }
            }
        }
    }
    // 4f. untimed blocking_tell from threads that carry a runtime handle (spawn_blocking worker, entered thread): the mailbox is
    // full, so the call must still be waiting when the gate opens - back-pressure, not a detached send
    let untimed_sb = {
        let (a2, sh2) = (a.clone(), sh.clone());
        rt.spawn_blocking(move || send_blocking(&sh2, Ctx::Client(18), 0, &a2, BKind::Tell, Body::plain(uid())))
    };
    let untimed_entered = {
        let (a2, sh2) = (a.clone(), sh.clone());
        let h = rt.handle().clone();
        std::thread::spawn(move || {
            let _g = h.enter();
            send_blocking(&sh2, Ctx::Client(19), 0, &a2, BKind::ErasedTell(None), Body::plain(uid()))
        })
    };
    std::thread::sleep(Duration::from_millis(30));
    *o.entry("C09.waits").or_default() += 2;
    for (place, early) in [("a spawn_blocking worker", untimed_sb.is_finished()), ("a thread that has entered the runtime", untimed_entered.is_finished())] {
        if early {
            v.push(("C09.waits".into(), format!("[blocking] blocking_tell(None) from {place} returned while the mailbox (capacity {cap}) was full behind a gated handler: a send into a full mailbox did not wait")));
        }
    }
    let dep_done_early = dep_tell.is_finished();
    *o.entry("C17.deprecated_ignores_timeout").or_default() += 1;
    if dep_done_early {
        v.push(("C17.deprecated_ignores_timeout".into(), "tell_blocking(Some(1 ms)) returned while the mailbox was still full".into()));
    }
    // 5. open the gate: everything accepted is handled in order; the deprecated call succeeds
    sh.gates[0].add_permits(1 << 20);
    let (dres, _) = dep_tell.join().unwrap();
    if !dres.is_ok() {
        v.push(("C17.deprecated_ignores_timeout".into(), format!("tell_blocking(Some(1 ms)) returned {dres:?} instead of waiting for a free slot")));
    }
    match rt.block_on(async { tokio::time::timeout(Duration::from_secs(10), untimed_sb).await }) {
        Ok(Ok((res, _))) if !res.is_ok() => v.push(("C09.waits".into(), format!("[blocking] blocking_tell(None) from a spawn_blocking worker returned {res:?} after the gate had opened instead of Ok"))),
        _ => {}
    }
    if let Ok((res, _)) = untimed_entered.join() {
        if !res.is_ok() {
            v.push(("C09.waits".into(), format!("[blocking] erased blocking_tell(None) from a thread that has entered the runtime returned {res:?} after the gate had opened instead of Ok")));
        }
    }
    // 5b. every timeout value: a huge timeout on a responsive actor is just a successful call
    for kind in [BKind::TellTo(u64::MAX), BKind::AskTo(u64::MAX), BKind::ErasedAsk(Some(u64::MAX))] {
        let (a2, sh2) = (a.clone(), sh.clone());
        let th = std::thread::spawn(move || send_blocking(&sh2, Ctx::Client(17), 0, &a2, kind, Body::plain(uid())));
        *o.entry("C17.any_timeout_value").or_default() += 1;
        match th.join() {
            Ok((res, _)) => {
                if !res.is_ok() {
                    v.push(("C17.any_timeout_value".into(), format!("{kind:?} (Duration::MAX) on a responsive actor returned {res:?}")));
                }
            }
            Err(_) => v.push(("C17.any_timeout_value".into(), format!("{kind:?} with a huge timeout panicked in the calling thread: {:?}", PANICS.lock().unwrap().last()))),
        }
    }
    // 5c. ... and a zero timeout is a call that may only succeed at once: Ok or Timeout, promptly, never a panic
    for kind in [BKind::TellTo(0), BKind::AskTo(0), BKind::ErasedTell(Some(0)), BKind::ErasedAsk(Some(0))] {
        let (a2, sh2) = (a.clone(), sh.clone());
        let th = std::thread::spawn(move || {
            let out = send_blocking(&sh2, Ctx::Client(18), 0, &a2, kind, Body::plain(uid()));
            // the same thread goes on at once: whatever the timed call did is over, a later message can never overtake it
            send_blocking(&sh2, Ctx::Client(18), 0, &a2, BKind::Tell, Body::plain(uid()));
            out
        });
        *o.entry("C17.any_timeout_value").or_default() += 1;
        match th.join() {
            Ok((res, el)) => {
                if !(res.is_ok() || res == Res::Timeout) {
                    v.push(("C17.any_timeout_value".into(), format!("{kind:?} (zero timeout) on a responsive actor returned {res:?}")));
                } else if el > Duration::from_secs(2) && hb.max_late_since(bucket0) <= STALL_US {
                    v.push(("C17.deadline".into(), format!("{kind:?} (zero timeout) returned {res:?} only after {el:?}")));
                }
            }
            Err(_) => v.push(("C17.any_timeout_value".into(), format!("{kind:?} with a zero timeout panicked in the calling thread: {:?}", PANICS.lock().unwrap().last()))),
        }
    }
    // 6. per-thread program order and reply integrity with mixed blocking calls
    let mut ths = vec![];
    for k in 0..3u64 {
        let (a, sh2) = (a.clone(), sh.clone());
        let mut cr = Rng::new(seed ^ k);
        ths.push(std::thread::spawn(move || {
            for _ in 0..6 {
                let kind = match cr.below(6) {
                    0 => BKind::Tell,
                    1 => BKind::Ask,
                    2 => BKind::TellTo(LONG),
                    3 => BKind::AskTo(LONG),
                    4 => BKind::DepAsk(1),
                    _ => BKind::ErasedAsk(None),
                };
                send_blocking(&sh2, Ctx::Client(20 + k as usize), 0, &a, kind, msg_body(&mut cr, false));
            }
        }));
    }
    let async_sender = {
        let (a, sh2) = (a.clone(), sh.clone());
        rt.spawn(async move {
            let h = H::D(a);
            for _ in 0..6 {
                send_via(&sh2, Ctx::Client(30), 0, &h, SendKind::Ask, MTy::U, Body::plain(uid())).await;
            }
        })
    };
    // 6b. a plain thread that is itself running a foreign executor (futures::executor) makes the same blocking calls from
    // inside a future driven by it: still a plain thread as far as rsactor and tokio are concerned
    let foreign = {
        let (a, sh2) = (a.clone(), sh.clone());
        let mut cr = Rng::new(seed ^ 77);
        std::thread::spawn(move || {
            futures::executor::block_on(async {
                for _ in 0..5 {
                    let kind = match cr.below(6) {
                        0 => BKind::Tell,
                        1 => BKind::Ask,
                        2 => BKind::DepTell(1),
                        3 => BKind::ErasedTell(None),
                        4 => BKind::AskTo(LONG),
                        _ => BKind::ErasedAsk(None),
                    };
                    send_blocking(&sh2, Ctx::Client(24), 0, &a, kind, msg_body(&mut cr, false));
                }
            })
        })
    };
    for t in ths {
        t.join().unwrap();
    }
    *o.entry("C17.same_rules").or_default() += 1;
    if foreign.join().is_err() {
        v.push(("C17.same_rules".into(), format!("[foreign-executor] blocking calls made by a plain thread from inside futures::executor::block_on panicked: {:?}", PANICS.lock().unwrap().last())));
    }
    let _ = rt.block_on(async_sender);
    // 7. stop, then blocking calls on the dead actor fail promptly with Send (also with a timeout)
    rt.block_on(async {
        let h = H::D(a.clone());
        if r.chance(50) {
            stop_via(&sh, Ctx::Main, 0, &h).await;
        } else {
            kill_via(&sh, Ctx::Main, 0, &h);
        }
    });
    let mut w = watcher;
    let joined = rt.block_on(async { tokio::time::timeout(Duration::from_secs(10), &mut w).await.is_ok() });
    let mut hung_actors = 0;
    if !joined {
        hung_actors = 1;
    } else {
        // from async code on a current-thread runtime: a dead actor must be reported, not waited for
        for kind in [BKind::AskTo(50), BKind::TellTo(50)] {
            let (a2, sh2) = (a.clone(), sh.clone());
            let (tx, rx) = std::sync::mpsc::channel();
            std::thread::spawn(move || {
                let ct = tokio::runtime::Builder::new_current_thread().enable_time().build().unwrap();
                let r = ct.block_on(async { send_blocking(&sh2, Ctx::Client(14), 0, &a2, kind, Body::plain(uid())) });
                let _ = tx.send(r);
            });
            *o.entry("C17.dead_actor").or_default() += 1;
            *o.entry("C03.after_end").or_default() += 1;
            match rx.recv_timeout(Duration::from_secs(10)) {
                Ok((res, _)) => {
                    if res != Res::Send {
                        v.push(("C17.dead_actor".into(), format!("{kind:?} from a current-thread runtime on a dead actor returned {res:?}")));
                    }
                }
                Err(_) => {
                    if hb.max_late_since(bucket0) < STALL_US {
                        v.push(("C03.complete".into(), format!("[ct-runtime] {kind:?} on an actor whose JoinHandle had resolved, called from async code on a current-thread runtime, did not return within 10 s")));
                    }
                }
            }
        }
        for kind in [BKind::Tell, BKind::Ask, BKind::TellTo(50), BKind::AskTo(50), BKind::DepTell(1), BKind::ErasedAsk(Some(50))] {
            let (res, el) = send_blocking(&sh, Ctx::Main, 0, &a, kind, Body::plain(uid()));
            *o.entry("C17.dead_actor").or_default() += 1;
            if res != Res::Send {
                v.push(("C17.dead_actor".into(), format!("{kind:?} on an actor whose JoinHandle had resolved returned {res:?}")));
            }
            if el > Duration::from_millis(2000) && hb.max_late_since(bucket0) < STALL_US {
                v.push(("C10.prompt_failure".into(), format!("{kind:?} on a dead actor took {el:?} to fail")));
            }
        }
    }
    drop(a);
    let out = RoundOut {
        log: sh.log.snapshot(),
        ids: ids.clone(),
        caps: vec![cap],
        hung_clients: 0,
        hung_actors,
        stalled: hb.max_late_since(bucket0) > STALL_US,
    };
    for id in ids.iter() {
        reg_remove(*id);
    }
    let tainted = AtomicBool::new(false);
    absorb(tot, prop, "blocking", seed, &out, &tainted);
    let mut t = tot.lock().unwrap();
    for (k, n) in o {
        *t.obl.entry(k).or_default() += n;
    }
    for (c, m) in v {
        let p = &c[..3];
        if prop == "all" || prop == p || (prop == "C17" && p != "C16") {
            t.viol.push((c, m, seed, "blocking".to_string()));
        }
    }
}

// ---------------------------------------------------------------------------------------------
// starved caller (C10): the outcome is available before the deadline but the calling task is only polled after it
// ---------------------------------------------------------------------------------------------
fn round_starve(seed: u64, hb: &Heartbeat, tot: &Mutex<Tot>, prop: &str) {
    let mut r = Rng::new(seed);
    // current-thread: the caller is simply not polled until the thread is free again; two workers: the caller sits in the
    // busy worker's LIFO slot while the other worker's time driver fires its timer at the deadline
    let ct = r.chance(50);
    if std::env::var("RSV_DEBUG").is_ok() {
        eprintln!("starve seed={seed} ct={ct}");
    }
    let rt = if ct {
        tokio::runtime::Builder::new_current_thread().enable_time().build().unwrap()
    } else {
        tokio::runtime::Builder::new_multi_thread().worker_threads(2).enable_time().build().unwrap()
    };
    let sh = Shared::new(1, 1, false, false, seed);
    let variant = 2 * r.below(2); // 0: ask whose reply is early; 2: tell whose mailbox slot is early
    let spec = ActorSpec { cap: Some(if variant == 2 { 1 } else { 4 }), start: HookScript::default(), run: vec![], stop: HookScript::default(), run_err_when_handled: None, in_peers: false };
    let bucket0 = hb.now_bucket();
    let to_ms = 40 + r.below(20);
    let block_us = (to_ms + 40) * 1000;
    let sh0 = sh.clone();
    let out = rt.block_on(async move {
      tokio::spawn(async move {
        let sh = sh0;
        let (a, jh) = spawn_sa(&sh, 0, &spec);
        sh.model_add(0, 1, "spawner");
        let w = tokio::spawn(watch(sh.clone(), 0, jh));
        // let the actor finish on_start and go idle
        for _ in 0..3 {
            tokio::task::yield_now().await;
        }
        // On this single-threaded runtime tasks run in spawn order. The caller (A) goes first; the helper (B) queues a
        // message that burns wall time inside its handler; the actor then produces A's outcome and, in the same poll,
        // blocks the thread past A's deadline. A is polled again only afterwards.
        let (sh_a, h_a) = (sh.clone(), H::D(a.clone()));
        let (sh_b, h_b) = (sh.clone(), H::D(a.clone()));
        let (ta, tb);
        if !ct {
            // two workers: the calling task hogs its own worker (a `join!` sibling blocks the thread) while the other worker
            // runs the actor (reply after ~25 ms, well before the deadline) and the time driver (fires the deadline)
            // B first makes the actor busy (spinning ~15 ms inside a handler) on one worker; A then runs on the other one.
            tb = tokio::spawn(async move {
                send_via(&sh_b, Ctx::Client(1), 0, &h_b, SendKind::Tell, MTy::U, Body { uid: uid(), flags: 0, steps: vec![Step::Busy(15_000)] }).await;
            });
            tokio::time::sleep(Duration::from_millis(3)).await;
            ta = tokio::spawn(async move {
                let t0 = Instant::now();
                let ask = send_via(&sh_a, Ctx::Client(0), 0, &h_a, SendKind::AskTo(to_ms + 20), MTy::U, Body::plain(uid()));
                let hog = async {
                    tokio::time::sleep(Duration::from_millis(2)).await;
                    std::thread::sleep(Duration::from_micros(block_us + 20_000));
                };
                let (res, _) = tokio::join!(ask, hog);
                (res, t0.elapsed())
            });
        } else if variant == 0 {
            ta = tokio::spawn(async move {
                let t0 = Instant::now();
                let res = send_via(&sh_a, Ctx::Client(0), 0, &h_a, SendKind::AskTo(to_ms), MTy::U, Body::plain(uid())).await;
                (res, t0.elapsed())
            });
            tb = tokio::spawn(async move {
                send_via(&sh_b, Ctx::Client(1), 0, &h_b, SendKind::Tell, MTy::U, Body { uid: uid(), flags: 0, steps: vec![Step::Busy(block_us)] }).await;
            });
        } else {
            // capacity 1: B fills the mailbox with the slow message first, A parks; taking B's message frees A's slot early
            tb = tokio::spawn(async move {
                send_via(&sh_b, Ctx::Client(1), 0, &h_b, SendKind::Tell, MTy::U, Body { uid: uid(), flags: 0, steps: vec![Step::Busy(block_us)] }).await;
            });
            ta = tokio::spawn(async move {
                let t0 = Instant::now();
                let res = send_via(&sh_a, Ctx::Client(0), 0, &h_a, SendKind::TellTo(to_ms), MTy::U, Body::plain(uid())).await;
                (res, t0.elapsed())
            });
        }
        let _ = tb.await;
        let out = ta.await.unwrap();
        let h = H::D(a.clone());
        stop_via(&sh, Ctx::Main, 0, &h).await;
        drop(h);
        drop(a);
        sh.model_add(0, -1, "drop");
        let _ = tokio::time::timeout(Duration::from_secs(10), w).await;
        out
      }).await.unwrap()
    });
    let (res, el) = out;
    if std::env::var("RSV_DEBUG").is_ok() {
        eprintln!("starve seed={seed} variant={variant} to={to_ms} el={el:?} res={res:?}");
    }
    let ids = sh.ids.lock().unwrap().clone();
    let log = sh.log.snapshot();
    for id in ids.iter() {
        reg_remove(*id);
    }
    // when was the outcome available? (wall microseconds since round start, same clock as the call's start stamp)
    let (start, to_ms) = log.iter().find_map(|e| match &e.k { K::CallStart { kind: OpKind::AskTo | OpKind::TellTo, to, .. } => Some((e.t, *to)), _ => None }).unwrap_or((0, to_ms));
    let variant = if !ct { 0 } else { variant };
    let outcome_at = log.iter().find_map(|e| match &e.k {
        K::HExit { .. } if variant == 0 => Some(e.t),
        K::HEnter { .. } if variant == 2 => Some(e.t),
        _ => None,
    });
    let mut t = tot.lock().unwrap();
    t.rounds += 1;
    t.events += log.len() as u64;
    *t.nontrivial.entry("C10".into()).or_default() += 1;
    t.hashes.insert(mix(variant, to_ms));
    let stalled = hb.max_late_since(bucket0) > STALL_US;
    if let Some(oa) = outcome_at {
        let margin_us = 15_000;
        if oa + margin_us < start + to_ms * 1000 && !stalled {
            // the outcome existed well before the deadline
            *t.obl.entry("C10.outcome_before_deadline").or_default() += 1;
            let late_poll = el > Duration::from_millis(to_ms);
            if late_poll {
                *t.obl.entry("C10.starved_caller").or_default() += 1;
            }
            let good = res.is_ok();
            if !good && (prop == "C10" || prop == "all") {
                t.viol.push((
                    "C10.masked".into(),
                    format!("the {} was available {} us after the call started, well before the {to_ms} ms deadline, but the caller (polled again only after {el:?}) got {res:?}", ["reply", "", "mailbox slot"][variant as usize], oa.saturating_sub(start)),
                    seed,
                    "starve".into(),
                ));
            }
        }
    }
}

// ---------------------------------------------------------------------------------------------
// mutual asks on real threads (C14): k actors each ask the next one at (nearly) the same instant
// ---------------------------------------------------------------------------------------------
#[cfg(feature = "f_deadlock")]
mod dl {
    use rsactor::{Actor, ActorRef, Message};
    use std::sync::atomic::{AtomicUsize, Ordering};
    use std::sync::Arc;
    pub struct D;
    pub struct Go {
        pub peer: ActorRef<D>,
        pub gate: Arc<AtomicUsize>,
        pub n: usize,
    }
    pub struct Ping;
    impl Actor for D {
        type Args = ();
        type Error = String;
        async fn on_start(_: (), _: &ActorRef<Self>) -> Result<Self, String> {
            Ok(D)
        }
    }
    impl Message<Ping> for D {
        type Reply = u8;
        async fn handle(&mut self, _: Ping, _: &ActorRef<Self>) -> u8 {
            1
        }
    }
    impl Message<Go> for D {
        type Reply = bool;
        async fn handle(&mut self, g: Go, _: &ActorRef<Self>) -> bool {
            // rendezvous: every participant spins until all are inside their handlers
            g.gate.fetch_add(1, Ordering::SeqCst);
            let t = std::time::Instant::now();
            while g.gate.load(Ordering::SeqCst) < g.n && t.elapsed() < std::time::Duration::from_millis(200) {
                std::hint::spin_loop();
            }
            g.peer.ask(Ping).await.is_ok()
        }
    }
}

#[cfg(feature = "f_deadlock")]
async fn round_mutual(seed: u64, hb: &Heartbeat, tot: &Mutex<Tot>, prop: &str) {
    use dl::*;
    let mut r = Rng::new(seed);
    let n = 2 + r.below(2) as usize;
    let mut refs = vec![];
    let mut jhs = vec![];
    for _ in 0..n {
        let (a, jh) = rsactor::spawn::<D>(());
        refs.push(a);
        jhs.push(jh);
    }
    let gate = Arc::new(std::sync::atomic::AtomicUsize::new(0));
    let bucket0 = hb.now_bucket();
    let mut asks = vec![];
    for i in 0..n {
        let a = refs[i].clone();
        let go = Go { peer: refs[(i + 1) % n].clone(), gate: gate.clone(), n };
        asks.push(tokio::spawn(async move { a.ask(go).await }));
    }
    let mut pending = 0;
    let mut errs = 0;
    for h in asks {
        let mut h = h;
        match tokio::time::timeout(Duration::from_secs(10), &mut h).await {
            Ok(Ok(Ok(_))) => {}
            Ok(_) => errs += 1,
            Err(_) => {
                pending += 1;
                h.abort();
            }
        }
    }
    let mut panics = 0;
    for (a, jh) in refs.iter().zip(jhs.into_iter()) {
        let _ = a.kill();
        if let Ok(Err(e)) = tokio::time::timeout(Duration::from_secs(10), jh).await {
            if e.is_panic() && panic_payload_to_string(e.into_panic().as_ref()).contains("Deadlock detected") {
                panics += 1;
            }
        }
    }
    let stalled = hb.max_late_since(bucket0) > STALL_US;
    let mut t = tot.lock().unwrap();
    t.rounds += 1;
    *t.nontrivial.entry("C14".into()).or_default() += 1;
    t.hashes.insert(mix(n as u64, (panics * 10 + errs) as u64));
    if stalled && pending > 0 {
        t.inconclusive.push(format!("mutualask round {seed}: watchdog fired while the machine was stalled"));
        return;
    }
    *t.obl.entry("C14.detect").or_default() += 1;
    if pending > 0 && (prop == "C14" || prop == "all" || prop == "C12") {
        t.viol.push((
            "C14.detect".into(),
            format!("[mutual-asks] {n} actors asked each other in a ring at the same instant on a multi-thread runtime; {pending} of them were still waiting for each other 10 s later ({panics} deadlock panics were raised): the cycle was not detected"),
            seed,
            "mutualask".into(),
        ));
    }
    if pending == 0 && panics == 0 && errs == 0 && gate.load(Ordering::SeqCst) >= n {
        // all handlers were inside the ring at once and yet everything succeeded: impossible for a real cycle
        t.viol.push(("C14.detect".into(), format!("[mutual-asks] a ring of {n} simultaneous asks completed without any deadlock report"), seed, "mutualask".into()));
    }
}

// ---------------------------------------------------------------------------------------------
// runtimes without a time driver: messaging and lifecycle never need timers (only the *_with_timeout calls do)
// ---------------------------------------------------------------------------------------------
fn round_notime(seed: u64, tot: &Mutex<Tot>, prop: &str) {
    let (tx, rx) = std::sync::mpsc::channel();
    let seed2 = seed;
    std::thread::spawn(move || {
        let mut r = Rng::new(seed2);
        let rt = if r.chance(50) {
            tokio::runtime::Builder::new_current_thread().build().unwrap()
        } else {
            tokio::runtime::Builder::new_multi_thread().worker_threads(2).build().unwrap()
        };
        let sh = Shared::new(2, 1, false, false, seed2);
        let out = rt.block_on(async {
            let mut refs = vec![];
            let mut ws = vec![];
            for i in 0..2usize {
                let spec = ActorSpec {
                    cap: Some(1 + r.below(3) as usize),
                    start: HookScript::default(),
                    run: vec![],
                    stop: HookScript { delay: 0, steps: vec![], out: if r.chance(10) { Out::Err } else { Out::Ok } },
                    run_err_when_handled: None,
                    in_peers: i == 1,
                };
                let (rf, jh) = spawn_sa(&sh, i, &spec);
                sh.model_add(i, 1, "spawner");
                if i == 1 {
                    // direct and type-erased handles alike: nothing in messaging may need a timer
                    sh.peers.lock().unwrap()[1] = Some(if r.chance(50) { H::D(rf.clone()) } else { H::E(Box::new(ES::from_ref(rf.clone(), &sh))) });
                    sh.model_add(1, 1, "peers");
                }
                ws.push(tokio::spawn(watch(sh.clone(), i, jh)));
                refs.push(rf);
            }
            let mut cl = vec![];
            for c in 0..3usize {
                let target = r.below(2) as usize;
                let h = if r.chance(50) { H::D(refs[target].clone()) } else { H::E(Box::new(ES::from_ref(refs[target].clone(), &sh))) };
                let erased = matches!(h, H::E(_));
                sh.model_add(target, 1, "slot-init");
                let sh2 = sh.clone();
                let mut cr = Rng::new(r.next());
                cl.push((erased, tokio::spawn(async move {
                    for _ in 0..4 {
                        let mut steps = vec![];
                        if cr.chance(40) {
                            steps.push(Step::Yield);
                        }
                        if target == 0 && cr.chance(40) {
                            steps.push(Step::Peer { target: 1, kind: if cr.chance(50) { SendKind::Ask } else { SendKind::Tell }, mty: MTy::U, body: Body::plain(uid()) });
                        }
                        if cr.chance(3) {
                            steps.push(Step::Panic);
                        }
                        let (kind, mty) = match cr.below(6) {
                            0 | 1 => (SendKind::Tell, MTy::U),
                            2 => (SendKind::Tell, MTy::R),
                            3 => (SendKind::Ask, MTy::S),
                            4 => (SendKind::Ask, MTy::N),
                            _ => (SendKind::Ask, MTy::U),
                        };
                        send_via(&sh2, Ctx::Client(c), target, &h, kind, mty, Body { uid: uid(), flags: 0, steps }).await;
                        tokio::task::yield_now().await;
                    }
                    drop(h);
                    sh2.model_add(target, -1, "drop");
                })));
            }
            for (erased, c) in cl {
                if let Err(e) = c.await {
                    if e.is_panic() {
                        // plain tell/ask need no timer: a panic in the caller is a failure of the call itself
                        let msg = panic_payload_to_string(e.into_panic().as_ref());
                        sh.viol(format!("{} a client using {} handles on a runtime without a time driver panicked inside a tell/ask: {msg}", if erased { "C16" } else { "C03" }, if erased { "type-erased" } else { "direct" }));
                    }
                }
            }
            for (i, rf) in refs.iter().enumerate() {
                let h = H::D(rf.clone());
                if r.chance(50) {
                    stop_via(&sh, Ctx::Main, i, &h).await;
                } else {
                    kill_via(&sh, Ctx::Main, i, &h);
                }
            }
            sh.peers.lock().unwrap()[1] = None;
            sh.model_add(1, -1, "peers-drop");
            for (i, rf) in refs.drain(..).enumerate() {
                drop(rf);
                sh.model_add(i, -1, "drop");
            }
            for w in ws {
                let _ = w.await;
            }
            let ids = sh.ids.lock().unwrap().clone();
            RoundOut { log: sh.log.snapshot(), ids, caps: vec![3, 3], hung_clients: 0, hung_actors: 0, stalled: false }
        });
        let _ = tx.send(out);
    });
    match rx.recv_timeout(Duration::from_secs(20)) {
        Ok(mut out) => {
            // capacities are only used by the occupancy bound; use the upper bound of what was drawn
            out.caps = vec![3, 3];
            for id in out.ids.iter() {
                reg_remove(*id);
            }
            let tainted = AtomicBool::new(false);
            absorb(tot, prop, "notime", seed, &out, &tainted);
        }
        Err(_) => {
            let mut t = tot.lock().unwrap();
            t.rounds += 1;
            t.viol.push(("C03.complete".into(), "[no-time-driver] a small workload of tells/asks/stop/kill on a runtime built without a time driver did not finish within 20 s".into(), seed, "notime".into()));
        }
    }
}

// ---------------------------------------------------------------------------------------------
// hogged: timed blocking calls whose caller is attached to a multi-thread runtime that cannot help them - every worker
// is held synchronously by a handler (and a hog task) for longer than the timeout, or the runtime has no time driver.
// "Given a timeout they return by the deadline even if the actor never responds or the mailbox stays full" (C17) must not
// depend on the caller's runtime having free workers or timers.
// ---------------------------------------------------------------------------------------------
fn round_hogged(seed: u64, hb: &Heartbeat, tot: &Mutex<Tot>, prop: &str) {
    let mut r = Rng::new(seed);
    let no_time = r.chance(40);
    let workers = 1 + r.below(2) as usize;
    let mut b = tokio::runtime::Builder::new_multi_thread();
    b.worker_threads(workers).max_blocking_threads(16);
    if !no_time {
        b.enable_time();
    }
    let rt = b.build().unwrap();
    let sh = Shared::new(1, 1, false, false, seed);
    let tell_variant = r.chance(40);
    let cap = if tell_variant && !no_time { 1 } else { 4 };
    let spec = ActorSpec { cap: Some(cap), start: HookScript::default(), run: vec![], stop: HookScript::default(), run_err_when_handled: None, in_peers: false };
    let to_ms = if no_time { 3000 } else { 40 + r.below(40) };
    let busy_us = (to_ms + 400) * 1000;
    let erased = r.chance(30);
    let from_async = no_time && workers == 2 && r.chance(30);
    let via_enter = r.chance(30);
    let bucket0 = hb.now_bucket();
    let (a, jh) = {
        let _g = rt.enter();
        spawn_sa(&sh, 0, &spec)
    };
    sh.model_add(0, 1, "spawner");
    let w = rt.spawn(watch(sh.clone(), 0, jh));
    std::thread::sleep(Duration::from_millis(3));
    if !no_time {
        let (sh2, h) = (sh.clone(), H::D(a.clone()));
        let busy_uid = uid();
        rt.spawn(async move {
            send_via(&sh2, Ctx::Client(1), 0, &h, SendKind::Tell, MTy::U, Body { uid: busy_uid, flags: 0, steps: vec![Step::Busy(busy_us)] }).await;
        });
        // wait until the slow handler has really been entered
        let t0 = Instant::now();
        while !sh.log.snapshot().iter().any(|e| matches!(&e.k, K::HEnter { uid, .. } if *uid == busy_uid)) && t0.elapsed() < Duration::from_millis(100) {
            std::thread::sleep(Duration::from_micros(200));
        }
        if tell_variant {
            // fill the single slot from this plain thread (the runtime's workers are about to be unavailable)
            send_blocking(&sh, Ctx::Client(2), 0, &a, BKind::Tell, Body::plain(uid()));
        }
        if workers == 2 {
            rt.spawn(async move {
                std::thread::sleep(Duration::from_micros(busy_us));
            });
        }
        std::thread::sleep(Duration::from_millis(4));
    }
    let kind = match (tell_variant, erased) {
        (false, false) => BKind::AskTo(to_ms),
        (false, true) => BKind::ErasedAsk(Some(to_ms)),
        (true, false) => BKind::TellTo(to_ms),
        (true, true) => BKind::ErasedTell(Some(to_ms)),
    };
    let (tx, rx) = std::sync::mpsc::channel();
    let (sh2, a2) = (sh.clone(), a.clone());
    let call = move || {
        let r = std::panic::catch_unwind(std::panic::AssertUnwindSafe(|| send_blocking(&sh2, Ctx::Client(0), 0, &a2, kind, Body::plain(uid()))));
        let _ = tx.send(r.map_err(|p| panic_payload_to_string(p.as_ref())));
    };
    let caller = if from_async {
        rt.spawn(async move { call() });
        "an async task"
    } else if via_enter {
        let h = rt.handle().clone();
        std::thread::spawn(move || {
            let _g = h.enter();
            call()
        });
        "a thread holding Handle::enter()"
    } else {
        rt.spawn_blocking(call);
        "a spawn_blocking thread"
    };
    let got = rx.recv_timeout(Duration::from_secs(15));
    let stalled = hb.max_late_since(bucket0) > STALL_US;
    let what = format!(
        "{:?} from {caller} of a multi-thread runtime ({workers} worker(s), {})",
        kind,
        if no_time { "built without a time driver; the actor is idle".to_string() } else { format!("every worker held synchronously for {} ms by a handler; timeout {to_ms} ms", busy_us / 1000) }
    );
    let mut viol: Vec<(String, String)> = vec![];
    match &got {
        Err(_) => viol.push(("C17.deadline".into(), format!("[hogged] {what}: no result after 15 s"))),
        Ok(Err(p)) => viol.push(("C17.no_panic".into(), format!("[hogged] {what}: the call panicked: {p}"))),
        Ok(Ok((res, el))) => {
            if no_time {
                if !res.is_ok() {
                    viol.push(("C17.same_rules".into(), format!("[hogged] {what}: returned {res:?} after {el:?} although the actor was alive and idle")));
                }
            } else {
                // a late return is only a verdict if the machine demonstrably ran threads on time during the round
                let slack = Duration::from_millis(to_ms + 250);
                if *el > slack && hb.max_late_since(bucket0) < 100_000 {
                    viol.push(("C17.deadline".into(), format!("[hogged] {what}: returned {res:?} only after {el:?}")));
                } else if !matches!(res, Res::Timeout) && !stalled {
                    viol.push(("C17.deadline".into(), format!("[hogged] {what}: returned {res:?} after {el:?} although the outcome could not exist before the deadline")));
                }
            }
        }
    }
    // teardown (bounded)
    let h = H::D(a.clone());
    kill_via(&sh, Ctx::Main, 0, &h);
    drop(h);
    drop(a);
    sh.model_add(0, -1, "drop");
    let (tx2, rx2) = std::sync::mpsc::channel();
    rt.spawn(async move {
        let _ = w.await;
        let _ = tx2.send(());
    });
    let joined = rx2.recv_timeout(Duration::from_secs(10)).is_ok();
    rt.shutdown_timeout(Duration::from_secs(2));
    let ids = sh.ids.lock().unwrap().clone();
    let out = RoundOut { log: sh.log.snapshot(), ids: ids.clone(), caps: vec![cap], hung_clients: 0, hung_actors: if joined { 0 } else { 1 }, stalled };
    for id in ids.iter() {
        reg_remove(*id);
    }
    {
        let mut t = tot.lock().unwrap();
        *t.obl.entry(if no_time { "C17.no_time_driver" } else { "C17.hogged_deadline" }).or_default() += 1;
        *t.nontrivial.entry("C17".into()).or_default() += 1;
        if stalled && !viol.is_empty() {
            t.inconclusive.push(format!("hogged round {seed}: machine stalled, {} finding(s) dropped", viol.len()));
        } else {
            for (c, m) in viol {
                if prop == "all" || prop == "C17" || prop == "C10" || prop == "C16" {
                    t.viol.push((c, m, seed, "hogged".into()));
                }
            }
        }
    }
    if got.is_ok() && joined {
        let tainted = AtomicBool::new(false);
        absorb(tot, prop, "hogged", seed, &out, &tainted);
    } else {
        tot.lock().unwrap().rounds += 1;
    }
}

// ---------------------------------------------------------------------------------------------
// reentrant: the process's tracing subscriber itself uses rsactor (a log-collector actor fed by a non-blocking tell from
// inside `event()`), and that collector has already ended. A failing ask/tell records a dead letter, which calls the
// subscriber, whose own tell fails and records another dead letter: the error path is re-entered on the same thread.
// "Every ask completes ... returns an Err rather than waiting forever" (C03) also when the framework calls foreign code.
// ---------------------------------------------------------------------------------------------
fn round_reentrant(seed: u64, tot: &Mutex<Tot>, prop: &str) {
    use ab::*;
    use futures::FutureExt;
    let (tx, rx) = std::sync::mpsc::channel::<Vec<String>>();
    std::thread::spawn(move || {
        let mut r = Rng::new(seed);
        let rt = if r.chance(50) {
            tokio::runtime::Builder::new_current_thread().enable_time().build().unwrap()
        } else {
            tokio::runtime::Builder::new_multi_thread().worker_threads(2).enable_time().build().unwrap()
        };
        let variant = r.below(3);
        let bad = rt.block_on(async {
            let mut bad = vec![];
            let (sink, sjh) = rsactor::spawn::<A>(Args { handled: Arc::new(AtomicU64::new(0)), start_ms: 0, ticks: false });
            let _ = sink.stop().await;
            let _ = sjh.await;
            let sink2 = sink.clone();
            *DL_HOOK.lock().unwrap() = Some(Arc::new(move || {
                let _ = sink2.tell(Work(0, 0)).now_or_never();
            }));
            let (a, jh) = rsactor::spawn::<A>(Args { handled: Arc::new(AtomicU64::new(0)), start_ms: 0, ticks: false });
            if variant == 0 {
                let _ = a.stop().await;
            } else {
                let _ = a.kill();
            }
            let _ = jh.await;
            // each failing call must come back with an error (the calls themselves are made while the hook is installed)
            match variant {
                0 => {
                    if !matches!(a.ask(Work(0, 0)).await, Err(rsactor::Error::Send { .. })) {
                        bad.push("ask on a stopped actor did not return Err(Send)".to_string());
                    }
                }
                1 => {
                    if a.tell(Work(0, 0)).await.is_ok() {
                        bad.push("tell on a killed actor returned Ok".to_string());
                    }
                }
                _ => {
                    if !matches!(a.ask_with_timeout(Work(0, 0), Duration::from_millis(50)).await, Err(rsactor::Error::Send { .. })) {
                        bad.push("ask_with_timeout on a killed actor did not return Err(Send)".to_string());
                    }
                }
            }
            // and the process must still be able to record dead letters afterwards
            if a.tell(Work(0, 0)).await.is_ok() {
                bad.push("second tell on a dead actor returned Ok".to_string());
            }
            *DL_HOOK.lock().unwrap() = None;
            bad
        });
        let _ = tx.send(bad);
    });
    let got = rx.recv_timeout(Duration::from_secs(15));
    *DL_HOOK.lock().unwrap_or_else(|e| e.into_inner()) = None;
    let mut t = tot.lock().unwrap();
    t.rounds += 1;
    t.hashes.insert(seed % 6);
    *t.obl.entry("C03.complete").or_default() += 1;
    *t.nontrivial.entry("C03".into()).or_default() += 1;
    *t.nontrivial.entry("C13".into()).or_default() += 1;
    let mut v = vec![];
    match got {
        Err(_) => v.push(("C03.complete", "[reentrant-subscriber] a send to a dead actor, made while the tracing subscriber itself sends to another dead actor from inside event(), did not return within 15 s".to_string())),
        Ok(bad) => {
            for b in bad {
                v.push(("C03.after_end", format!("[reentrant-subscriber] {b}")));
            }
        }
    }
    for (c, m) in v {
        if prop == "all" || prop == "C03" || prop == "C13" || prop == "C12" {
            t.viol.push((c.into(), m, seed, "reentrant".into()));
        }
    }
}

// ---------------------------------------------------------------------------------------------
// dropspin: the last strong references of an actor are dropped on other OS threads while the actor is actively going round
// its loop (an on_run that keeps returning Ok(true) after a yield or a very short timer). The two channels of an ActorRef do
// not close at the same instant; whatever the loop observes in between, "loss of all strong references" must end the actor
// through on_stop(killed=false) with a Completed result (C04, C05, C07).
// ---------------------------------------------------------------------------------------------
mod sp {
    use rsactor::{Actor, ActorRef, ActorWeak, Message};
    use std::sync::atomic::{AtomicU64, Ordering};
    use std::sync::Arc;
    pub struct S {
        pub mode: u8,
        pub stops: Arc<AtomicU64>,
        pub stop_killed: Arc<AtomicU64>,
    }
    pub struct Args {
        pub mode: u8,
        pub stops: Arc<AtomicU64>,
        pub stop_killed: Arc<AtomicU64>,
    }
    pub struct Ping;
    impl Actor for S {
        type Args = Args;
        type Error = String;
        async fn on_start(a: Args, _: &ActorRef<Self>) -> Result<Self, String> {
            Ok(S { mode: a.mode, stops: a.stops, stop_killed: a.stop_killed })
        }
        async fn on_run(&mut self, _: &ActorWeak<Self>) -> Result<bool, String> {
            match self.mode {
                0 => Ok(false),
                1 => {
                    tokio::task::yield_now().await;
                    Ok(true)
                }
                // a synchronous polling slice: ready on its first poll, every time (the loop spins, but still serves messages)
                3 => Ok(true),
                _ => {
                    tokio::time::sleep(std::time::Duration::from_micros(50)).await;
                    Ok(true)
                }
            }
        }
        async fn on_stop(&mut self, _: &ActorWeak<Self>, killed: bool) -> Result<(), String> {
            self.stops.fetch_add(1, Ordering::SeqCst);
            if killed {
                self.stop_killed.fetch_add(1, Ordering::SeqCst);
            }
            Ok(())
        }
    }
    impl Message<Ping> for S {
        type Reply = u8;
        async fn handle(&mut self, _: Ping, _: &ActorRef<Self>) -> u8 {
            1
        }
    }
}

fn round_dropspin(seed: u64, hb: &Heartbeat, tot: &Mutex<Tot>, prop: &str) {
    use sp::*;
    let mut r = Rng::new(seed);
    let workers = 3 + r.below(3) as usize;
    let rt = tokio::runtime::Builder::new_multi_thread().worker_threads(workers).enable_time().build().unwrap();
    let k = 4 + r.below(5) as usize;
    let spinner = if r.chance(50) { Some(r.below(k as u64) as usize) } else { None };
    let bucket0 = hb.now_bucket();
    let mut viol: Vec<(String, String)> = vec![];
    let mut actors = vec![];
    let mut groups: Vec<Vec<rsactor::ActorRef<S>>> = vec![vec![], vec![]];
    rt.block_on(async {
        for i in 0..k {
            let stops = Arc::new(AtomicU64::new(0));
            let sk = Arc::new(AtomicU64::new(0));
            // at most one actor per round whose on_run never suspends (it occupies a worker thread until it ends)
            let mode = if Some(i) == spinner { 3 } else if i % 4 == 3 { 0 } else { 1 + r.below(2) as u8 };
            let (a, jh) = rsactor::spawn_with_mailbox_capacity::<S>(Args { mode, stops: stops.clone(), stop_killed: sk.clone() }, 1 + r.below(4) as usize);
            match tokio::time::timeout(Duration::from_secs(10), a.ask(Ping)).await {
                Ok(Ok(1)) => {}
                other => viol.push(("C03.complete".into(), format!("[dropspin] actor {i} (on_run mode {mode}) did not answer a plain ask within 10 s although every on_run call finishes at once: {other:?}"))),
            }
            // two strong references per actor, dropped by two different threads at about the same time
            groups[0].push(a.clone());
            groups[1].push(a);
            actors.push((mode, stops, sk, jh));
        }
    });
    let go = Arc::new(AtomicBool::new(false));
    let mut ths = vec![];
    for (gi, g) in groups.into_iter().enumerate() {
        let go = go.clone();
        let gap = r.below(40);
        ths.push(std::thread::spawn(move || {
            while !go.load(Ordering::Acquire) {
                std::hint::spin_loop();
            }
            for a in g {
                drop(a);
                if gi == 1 {
                    spin(gap);
                }
            }
        }));
    }
    go.store(true, Ordering::Release);
    for t in ths {
        let _ = t.join();
    }
    let mut n_ok = 0u64;
    rt.block_on(async {
        for (i, (mode, stops, sk, jh)) in actors.into_iter().enumerate() {
            let what = format!("actor {i} (on_run mode {mode}: {}) whose hooks all return Ok lost its last two strong references on two other threads", ["returns Ok(false)", "yields, then Ok(true)", "50 us timer, then Ok(true)", "Ok(true) at once, never suspends"][mode as usize]);
            match tokio::time::timeout(Duration::from_secs(10), jh).await {
                Err(_) => viol.push(("C07.ends".into(), format!("[dropspin] {what}; its JoinHandle had not resolved 10 s later (on_stop ran {} time(s))", stops.load(Ordering::SeqCst)))),
                Ok(Err(e)) => viol.push(("C05.result".into(), format!("[dropspin] {what}; the JoinHandle reports {} instead of Completed {{ killed: false }}; on_stop ran {} time(s)", if e.is_panic() { format!("a panic ({})", panic_payload_to_string(e.into_panic().as_ref())) } else { "a cancelled task".to_string() }, stops.load(Ordering::SeqCst)))),
                Ok(Ok(res)) => {
                    let st = stops.load(Ordering::SeqCst);
                    let good = matches!(res, rsactor::ActorResult::Completed { killed: false, .. });
                    if !good {
                        viol.push(("C05.result".into(), format!("[dropspin] {what}; result: completed={} killed={}", res.is_completed(), res.was_killed())));
                    } else if st != 1 || sk.load(Ordering::SeqCst) != 0 {
                        viol.push(("C04.stop_iff".into(), format!("[dropspin] {what}; on_stop ran {st} time(s), {} of them with killed=true", sk.load(Ordering::SeqCst))));
                    } else {
                        n_ok += 1;
                    }
                }
            }
        }
    });
    rt.shutdown_timeout(Duration::from_secs(2));
    let stalled = hb.max_late_since(bucket0) > STALL_US;
    let mut t = tot.lock().unwrap();
    t.rounds += 1;
    t.hashes.insert(mix(workers as u64, k as u64));
    for p in ["C04", "C05", "C07"] {
        *t.nontrivial.entry(p.into()).or_default() += 1;
    }
    *t.obl.entry("C05.result").or_default() += n_ok;
    *t.obl.entry("C04.stop_iff").or_default() += n_ok;
    *t.obl.entry("C07.ends").or_default() += n_ok;
    if stalled && viol.iter().any(|v| v.0 == "C07.ends") {
        t.inconclusive.push(format!("dropspin round {seed}: machine stalled"));
        viol.retain(|v| v.0 != "C07.ends");
    }
    for (c, m) in viol {
        if prop == "all" || c.starts_with(prop) || (prop == "C12" && c != "C07.ends") || (prop == "C08" && c.starts_with("C03")) {
            t.viol.push((c, m, seed, "dropspin".into()));
        }
    }
}

// ---------------------------------------------------------------------------------------------
// metricsrace (C20): reader threads spin on the metrics API while a short series of asks is handled, the last handler being the
// slowest; nothing is sent afterwards. After stop() and join the final values, read through a strong and a weak-upgraded handle,
// must account for every handler that was entered - also the one that finished while a reader was in the middle of a read.
// ---------------------------------------------------------------------------------------------
#[cfg(feature = "f_metrics")]
fn round_metricsrace(seed: u64, hb: &Heartbeat, tot: &Mutex<Tot>, prop: &str) {
    use ab::*;
    let mut r = Rng::new(seed);
    let workers = 2 + r.below(3) as usize;
    let rt = tokio::runtime::Builder::new_multi_thread().worker_threads(workers).enable_time().build().unwrap();
    let n = 3 + r.below(8);
    let nreaders = 2 + r.below(3) as usize;
    let last_ms = 1 + r.below(3);
    let bucket0 = hb.now_bucket();
    let handled = Arc::new(AtomicU64::new(0));
    let (a, jh) = {
        let _g = rt.enter();
        rsactor::spawn::<A>(Args { handled: handled.clone(), start_ms: 0, ticks: false })
    };
    let stop = Arc::new(AtomicBool::new(false));
    let mut readers = vec![];
    for k in 0..nreaders {
        let (a2, stop2) = (a.clone(), stop.clone());
        readers.push(std::thread::spawn(move || {
            let mut mono_bad = None;
            let mut last = 0u64;
            let mut reads = 0u64;
            while !stop2.load(Ordering::Relaxed) {
                let c = match k % 3 {
                    0 => a2.metrics().message_count,
                    1 => a2.message_count(),
                    _ => {
                        let _ = a2.max_processing_time();
                        let _ = a2.avg_processing_time();
                        a2.message_count()
                    }
                };
                if c < last {
                    mono_bad = Some((last, c));
                }
                last = c;
                reads += 1;
            }
            (mono_bad, reads)
        }));
    }
    let mut viol: Vec<(String, String)> = vec![];
    let mut ok_asks = 0u64;
    let a3 = a.clone();
    let joined = rt.block_on(async move {
        for i in 0..n {
            let ms = if i + 1 == n { last_ms } else { 0 };
            if let Ok(Ok(_)) = tokio::time::timeout(Duration::from_secs(10), a3.ask(Work(i, ms))).await {
                ok_asks += 1;
            }
        }
        let _ = a3.stop().await;
        (tokio::time::timeout(Duration::from_secs(10), jh).await.is_ok(), ok_asks)
    });
    stop.store(true, Ordering::Relaxed);
    let mut reads = 0;
    for t in readers {
        if let Ok((mono, n)) = t.join() {
            reads += n;
            if let Some((x, y)) = mono {
                viol.push(("C20.monotone".into(), format!("[metricsrace] message_count went from {x} to {y} in consecutive reads of one reader thread")));
            }
        }
    }
    let (joined, ok_asks) = joined;
    let entered = handled.load(Ordering::SeqCst);
    let weak = rsactor::ActorRef::downgrade(&a);
    let stalled = hb.max_late_since(bucket0) > STALL_US;
    if joined && ok_asks == n {
        for (via, h) in [("the strong handle", Some(a.clone())), ("a weak-upgraded handle", weak.upgrade())] {
            let Some(h) = h else {
                viol.push(("C20.readable".into(), format!("[metricsrace] upgrade() failed although a strong handle is still held")));
                continue;
            };
            let m = h.metrics();
            if m.message_count != entered {
                viol.push(("C20.count".into(), format!("[metricsrace] {entered} handlers were entered ({n} asks, all answered, while {nreaders} threads were reading the metrics; nothing was sent afterwards); after stop() and join, message_count read through {via} is {}", m.message_count)));
            }
            if m.max_processing_time < Duration::from_millis(last_ms) {
                viol.push(("C20.max_lower_bound".into(), format!("[metricsrace] the last handler slept {last_ms} ms but max_processing_time read through {via} after the actor ended is {:?}", m.max_processing_time)));
            }
            if m.avg_processing_time > m.max_processing_time {
                viol.push(("C20.avg_le_max".into(), format!("[metricsrace] avg {:?} > max {:?} after the actor ended", m.avg_processing_time, m.max_processing_time)));
            }
            if m.message_count != h.message_count() || m.max_processing_time != h.max_processing_time() || m.avg_processing_time != h.avg_processing_time() {
                viol.push(("C20.snapshot_agrees".into(), format!("[metricsrace] snapshot {:?} disagrees with the individual accessors after the actor ended", m)));
            }
        }
    }
    drop(a);
    rt.shutdown_timeout(Duration::from_secs(2));
    let mut t = tot.lock().unwrap();
    t.rounds += 1;
    t.hashes.insert(mix(n * 8 + nreaders as u64, last_ms * 8 + workers as u64));
    *t.nontrivial.entry("C20".into()).or_default() += 1;
    if !(joined && ok_asks == n) {
        if !stalled {
            t.inconclusive.push(format!("metricsrace round {seed}: workload did not complete (joined={joined}, asks ok {ok_asks}/{n})"));
        }
        return;
    }
    *t.obl.entry("C20.count").or_default() += 2;
    *t.obl.entry("C20.concurrent_reads").or_default() += reads;
    for (c, m) in viol {
        if prop == "all" || c.starts_with(prop) {
            t.viol.push((c, m, seed, "metricsrace".into()));
        }
    }
}

// ---------------------------------------------------------------------------------------------
// undriven: the actor lives on a current-thread runtime whose owner only drives it until the actor's JoinHandle has resolved
// (`rt.block_on(join_handle)`) and then keeps the runtime alive without driving it. Askers outside that runtime (plain threads
// with a foreign executor, the blocking API) whose requests were queued when the actor ended must get their error from the
// ending actor itself - nothing that would have to run on that runtime later can be relied upon (C03).
// ---------------------------------------------------------------------------------------------
fn round_undriven(seed: u64, hb: &Heartbeat, tot: &Mutex<Tot>, prop: &str) {
    use dr::*;
    let mut r = Rng::new(seed);
    let cap = 4 + r.below(6) as usize;
    let nask = 1 + r.below(cap as u64 - 1) as usize;
    let cause = r.below(3); // 0 kill, 1 stop (queued asks are answered, later ones fail), 2 handler panic
    let interval = if r.chance(70) { 1 } else { 61 };
    let bucket0 = hb.now_bucket();
    let (done_tx, done_rx) = std::sync::mpsc::channel::<(usize, bool)>();
    let (ended_tx, ended_rx) = std::sync::mpsc::channel::<(bool, bool, bool)>();
    let (release_tx, release_rx) = std::sync::mpsc::channel::<()>();
    let started = Arc::new(AtomicU64::new(0));
    let started2 = started.clone();
    let owner = std::thread::spawn(move || {
        let rt = tokio::runtime::Builder::new_current_thread().enable_time().event_interval(interval).build().unwrap();
        let (a, jh) = {
            let _g = rt.enter();
            rsactor::spawn_with_mailbox_capacity::<A>(None, cap)
        };
        // a slow first request keeps the actor busy while the outside requests queue up behind it
        let a0 = a.clone();
        rt.spawn(async move {
            let _ = a0.ask(Slow(40)).await;
        });
        rt.block_on(async { tokio::time::sleep(Duration::from_millis(5)).await });
        let mut ths = vec![];
        for k in 0..nask {
            let (a2, tx, st) = (a.clone(), done_tx.clone(), started2.clone());
            let via_blocking = k % 2 == 1;
            ths.push(std::thread::spawn(move || {
                st.fetch_add(1, Ordering::SeqCst);
                let ok = if via_blocking { a2.blocking_ask(Ping(k as u64), None).is_ok() } else { futures::executor::block_on(a2.ask(Ping(k as u64))).is_ok() };
                let _ = tx.send((k, ok));
            }));
        }
        // give the outside threads time to enqueue (the mailbox has room for all of them), then end the actor
        while started2.load(Ordering::SeqCst) < nask as u64 {
            std::thread::yield_now();
        }
        std::thread::sleep(Duration::from_millis(10));
        match cause {
            0 => {
                let _ = a.kill();
            }
            1 => {
                let a1 = a.clone();
                rt.spawn(async move {
                    let _ = a1.stop().await;
                });
            }
            _ => {
                let a1 = a.clone();
                rt.spawn(async move {
                    let _ = a1.tell(Boom).await;
                });
            }
        }
        let ended = rt.block_on(async { tokio::time::timeout(Duration::from_secs(10), jh).await.is_ok() });
        // the JoinHandle has resolved: from this instant on the actor is over for everybody, whatever still has to run on this runtime
        let alive_after = a.is_alive();
        let late_tell_ok = ended && futures::executor::block_on(a.tell(Ping(9999))).is_ok();
        let _ = ended_tx.send((ended, late_tell_ok, alive_after));
        // the runtime stays alive, nobody drives it
        let _ = release_rx.recv_timeout(Duration::from_secs(30));
        drop(a);
        rt.shutdown_background();
        for t in ths {
            let _ = t.join();
        }
    });
    let (ended, late_tell_ok, alive_after) = ended_rx.recv_timeout(Duration::from_secs(20)).unwrap_or((false, false, false));
    let mut got = vec![];
    let t0 = Instant::now();
    while got.len() < nask && t0.elapsed() < Duration::from_secs(10) {
        if let Ok(x) = done_rx.recv_timeout(Duration::from_millis(100)) {
            got.push(x);
        }
    }
    let stalled = hb.max_late_since(bucket0) > STALL_US;
    let missing = nask - got.len();
    let _ = release_tx.send(());
    let mut t = tot.lock().unwrap();
    t.rounds += 1;
    t.hashes.insert(mix(cap as u64 * 16 + nask as u64, cause * 2 + (interval == 1) as u64));
    *t.nontrivial.entry("C03".into()).or_default() += 1;
    if !ended {
        if !stalled {
            t.inconclusive.push(format!("undriven round {seed}: the actor did not end within 10 s"));
        }
        drop(t);
        let _ = owner.join();
        return;
    }
    *t.obl.entry("C03.complete").or_default() += nask as u64;
    if missing > 0 && !stalled && (prop == "all" || prop == "C03" || prop == "C12") {
        t.viol.push((
            "C03.complete".into(),
            format!("[undriven-runtime] the actor (capacity {cap}, ended by {}) lived on a current-thread runtime that was driven only until its JoinHandle resolved (event_interval {interval}); {missing} of {nask} asks from outside threads that were queued in its mailbox at that moment were still waiting 10 s later", ["kill", "stop", "a handler panic"][cause as usize]),
            seed,
            "undriven".into(),
        ));
    }
    *t.obl.entry("C11.send_after_end").or_default() += 1;
    if (late_tell_ok || alive_after) && !stalled && (prop == "all" || prop == "C03" || prop == "C12" || prop == "C11") {
        t.viol.push((
            "C11.send_after_end".into(),
            format!("[undriven-runtime] the actor's JoinHandle had resolved (ended by {}); immediately afterwards, on the same thread, is_alive() = {alive_after} and a tell returned {}", ["kill", "stop", "a handler panic"][cause as usize], if late_tell_ok { "Ok(())" } else { "an error" }),
            seed,
            "undriven".into(),
        ));
    }
    drop(t);
    let _ = owner.join();
}

// ---------------------------------------------------------------------------------------------
// dlrace (C15, needs deadlock-detection): many actors on many worker threads issue in-actor asks at once - some answered, some
// ended by their timeout while the callee is still busy - so that the wait-for graph's lock is contended at the very moments
// edges are inserted and removed. When everything has finished the graph must be empty (hook H1), and an actor whose ask had
// timed out must not be reported as a deadlock party when its former callee later asks it.
// ---------------------------------------------------------------------------------------------
#[cfg(feature = "f_deadlock")]
mod dn {
    use rsactor::{Actor, ActorRef, Message};
    use std::sync::Arc;
    use std::time::Duration;
    pub struct N;
    /// ask `.0` with a 1 ms timeout for a request whose handler parks on `.1` (so the ask ends by its timeout)
    pub struct Probe(pub ActorRef<N>, pub Arc<tokio::sync::Semaphore>, pub Arc<tokio::sync::Semaphore>);
    /// park until released, then - still inside this handler - ask `.1` (the former asker, idle by then)
    pub struct Park(pub Arc<tokio::sync::Semaphore>, pub ActorRef<N>, pub Arc<tokio::sync::Semaphore>);
    pub struct Relay(pub ActorRef<N>);
    pub struct Ping;
    impl Actor for N {
        type Args = ();
        type Error = String;
        async fn on_start(_: (), _: &ActorRef<Self>) -> Result<Self, String> {
            Ok(N)
        }
    }
    impl Message<Ping> for N {
        type Reply = u8;
        async fn handle(&mut self, _: Ping, _: &ActorRef<Self>) -> u8 {
            1
        }
    }
    impl Message<Park> for N {
        type Reply = bool;
        async fn handle(&mut self, m: Park, _: &ActorRef<Self>) -> bool {
            m.2.add_permits(1); // tell the driver that this request has been taken
            let _ = tokio::time::timeout(Duration::from_secs(10), m.0.acquire()).await;
            m.1.ask(Ping).await.is_ok()
        }
    }
    impl Message<Probe> for N {
        type Reply = bool;
        async fn handle(&mut self, m: Probe, me: &ActorRef<Self>) -> bool {
            m.0.ask_with_timeout(Park(m.1, me.clone(), m.2), Duration::from_millis(1)).await.is_ok()
        }
    }
    impl Message<Relay> for N {
        type Reply = bool;
        async fn handle(&mut self, m: Relay, _: &ActorRef<Self>) -> bool {
            m.0.ask(Ping).await.is_ok()
        }
    }
    /// create the ask future inside this handler (through a `'static` reference) but let a detached task drive it: the hook
    /// itself never waits for the callee, so it must not appear in the wait-for graph
    pub struct Eager(pub &'static ActorRef<N>, pub Arc<tokio::sync::Semaphore>, pub Arc<tokio::sync::Semaphore>);
    impl Message<Eager> for N {
        type Reply = bool;
        async fn handle(&mut self, m: Eager, me: &ActorRef<Self>) -> bool {
            let fut = m.0.ask(Park(m.1, me.clone(), m.2));
            tokio::spawn(fut);
            true
        }
    }
}

#[cfg(all(feature = "f_deadlock", rsactor_verif))]
fn round_dlrace(seed: u64, hb: &Heartbeat, tot: &Mutex<Tot>, prop: &str) {
    use dn::*;
    let mut r = Rng::new(seed);
    let workers = *r.pick(&[4usize, 8, 16]);
    let rt = tokio::runtime::Builder::new_multi_thread().worker_threads(workers).enable_time().build().unwrap();
    let pairs = 8 + r.below(12) as usize;
    let noise = 8 + r.below(20) as usize;
    let iters = 5 + r.below(10);
    let bucket0 = hb.now_bucket();
    let mut viol: Vec<(String, String)> = vec![];
    let mut timed_out = 0u64;
    let ok = rt.block_on(async {
        let mut nodes = vec![];
        let mut jhs = vec![];
        for _ in 0..(2 * (pairs + noise)) {
            let (a, jh) = rsactor::spawn::<N>(());
            nodes.push(a);
            jhs.push(jh);
        }
        let mut tasks = vec![];
        for p in 0..pairs {
            let (a, b) = (nodes[2 * p].clone(), nodes[2 * p + 1].clone());
            let mut pr = Rng::new(r.next());
            tasks.push(tokio::spawn(async move {
                let mut n = 0u64;
                for _ in 0..iters {
                    // A's in-actor ask to B ends by its 1 ms timeout (B's handler is parked); A's handler returns
                    let gate = Arc::new(tokio::sync::Semaphore::new(0));
                    let entered = Arc::new(tokio::sync::Semaphore::new(0));
                    let eager = p == 0 && pr.chance(50);
                    if eager {
                        // variant: A only creates the ask (future built in its hook, driven by a detached task) and returns
                        let leaked: &'static rsactor::ActorRef<N> = Box::leak(Box::new(b.clone()));
                        match a.ask(Eager(leaked, gate.clone(), entered.clone())).await {
                            Ok(true) => {}
                            other => return Err(format!("the actor that only creates an ask future failed: {other:?}")),
                        }
                    } else {
                        match a.ask(Probe(b.clone(), gate.clone(), entered.clone())).await {
                            Ok(false) => n += 1,
                            Ok(true) => {}
                            Err(e) => return Err(format!("the probing actor failed: {e:?}")),
                        }
                    }
                    if pr.chance(30) {
                        tokio::task::yield_now().await;
                    }
                    // B must really be inside that request's handler (parked), and A's handler must be over, before B is released:
                    // still inside the stale request's handler it then asks the idle A, which must simply work
                    if tokio::time::timeout(Duration::from_secs(10), entered.acquire()).await.is_err() {
                        return Err("the callee never took the request".to_string());
                    }
                    gate.add_permits(1);
                    match b.ask(Ping).await {
                        Ok(_) => {}
                        Err(e) if eager => return Err(format!("A's handler had only created an ask to B (driven by a detached task) and returned; B, released afterwards, asked the idle A from that request's handler and died: {e:?}")),
                        Err(e) => return Err(format!("A's in-actor ask_with_timeout to B had timed out and A was idle again; B, released afterwards, asked A from the stale request's handler and died: {e:?}")),
                    }
                }
                Ok(n)
            }));
        }
        for q in 0..noise {
            let (x, y) = (nodes[2 * (pairs + q)].clone(), nodes[2 * (pairs + q) + 1].clone());
            tasks.push(tokio::spawn(async move {
                for _ in 0..(iters * 6) {
                    let _ = x.ask(Relay(y.clone())).await;
                }
                Ok(0)
            }));
        }
        let mut all = true;
        for t in tasks {
            match tokio::time::timeout(Duration::from_secs(20), t).await {
                Ok(Ok(Ok(n))) => timed_out += n,
                Ok(Ok(Err(m))) => viol.push(("C15.sound".into(), format!("[dlrace] {m}"))),
                Ok(Err(_)) => viol.push(("C15.sound".into(), "[dlrace] a client task panicked".into())),
                Err(_) => all = false,
            }
        }
        // everything has finished: the graph must be empty
        let snap = rsactor::verif::wait_for_snapshot();
        if all && !snap.is_empty() {
            viol.push(("C15.residue".into(), format!("[dlrace] {} in-actor asks ended by their timeout and the rest were answered, all on {workers} worker threads at once; after every ask had finished the wait-for graph still holds {:?}", timed_out, &snap[..snap.len().min(6)])));
        }
        let mut deadlock_panics = 0;
        for (a, jh) in nodes.iter().zip(jhs.into_iter()) {
            let _ = a.kill();
            if let Ok(Err(e)) = tokio::time::timeout(Duration::from_secs(10), jh).await {
                if e.is_panic() && panic_payload_to_string(e.into_panic().as_ref()).contains("Deadlock detected") {
                    deadlock_panics += 1;
                }
            }
        }
        if deadlock_panics > 0 {
            viol.push(("C15.sound".into(), format!("[dlrace] {deadlock_panics} actor(s) died of a 'Deadlock detected' panic although no two asks ever waited for each other (the only unanswered asks had timed out)")));
        }
        all
    });
    rt.shutdown_timeout(Duration::from_secs(2));
    let stalled = hb.max_late_since(bucket0) > STALL_US;
    let mut t = tot.lock().unwrap();
    t.rounds += 1;
    t.hashes.insert(mix(pairs as u64 * 64 + noise as u64, iters * 32 + workers as u64));
    *t.nontrivial.entry("C15".into()).or_default() += 1;
    if !ok {
        if !stalled {
            t.inconclusive.push(format!("dlrace round {seed}: a client did not finish within 20 s"));
        }
        return;
    }
    *t.obl.entry("C15.residue").or_default() += 1;
    *t.obl.entry("C15.timed_out_asks").or_default() += timed_out;
    for (c, m) in viol {
        if prop == "all" || prop == "C15" || prop == "C12" {
            t.viol.push((c, m, seed, "dlrace".into()));
        }
    }
}

// ---------------------------------------------------------------------------------------------
// dropsend: a message whose destructor makes a timed blocking call of its own (a lease reporting to a collector). When a timed
// blocking send to a dead actor fails, the message is dropped wherever rsactor happens to be running at that moment - the
// nested call made there must work like any other, and the outer call must return its error (C17, C03).
// ---------------------------------------------------------------------------------------------
fn round_dropsend(seed: u64, hb: &Heartbeat, tot: &Mutex<Tot>, prop: &str) {
    use ab::*;
    let mut r = Rng::new(seed);
    let rt = tokio::runtime::Builder::new_multi_thread().worker_threads(2).enable_time().build().unwrap();
    let bucket0 = hb.now_bucket();
    let handled = Arc::new(AtomicU64::new(0));
    let (dead, collector, cjh) = rt.block_on(async {
        let (d, djh) = rsactor::spawn::<A>(Args { handled: Arc::new(AtomicU64::new(0)), start_ms: 0, ticks: false });
        let _ = d.stop().await;
        let _ = djh.await;
        let (c, cjh) = rsactor::spawn::<A>(Args { handled: handled.clone(), start_ms: 0, ticks: false });
        (d, c, cjh)
    });
    let ncalls = 2 + r.below(3);
    let (tx, rx) = std::sync::mpsc::channel();
    for k in 0..ncalls {
        let (d, c, tx) = (dead.clone(), collector.clone(), tx.clone());
        let h = rt.handle().clone();
        let mode = r.below(3);
        let ask = r.chance(50);
        let call = move || {
            let t = Instant::now();
            let ok = if ask { d.blocking_ask(Lease(Some(c)), Some(Duration::from_secs(2))).is_err() } else { d.blocking_tell(Lease(Some(c)), Some(Duration::from_secs(2))).is_err() };
            let _ = tx.send((k, ok, t.elapsed()));
        };
        match mode {
            0 => {
                std::thread::spawn(call);
            }
            1 => {
                std::thread::spawn(move || {
                    let _g = h.enter();
                    call()
                });
            }
            _ => {
                rt.spawn_blocking(call);
            }
        }
    }
    let mut got = 0;
    let mut bad = vec![];
    let t0 = Instant::now();
    while got < ncalls && t0.elapsed() < Duration::from_secs(12) {
        if let Ok((k, is_err, el)) = rx.recv_timeout(Duration::from_millis(200)) {
            got += 1;
            if !is_err {
                bad.push(format!("call {k} to a stopped actor returned Ok"));
            }
            let _ = el;
        }
    }
    // a failed delivery made by a destructor while its thread unwinds from a panic is a failed delivery like any other: it
    // records exactly one dead letter
    let dl_before = UNATTRIBUTED_DEAD_LETTERS.load(Ordering::SeqCst);
    {
        let d = dead.clone();
        let _ = std::thread::spawn(move || {
            let _lease = PanicLease(d);
            panic!("scripted unwinding while a guard that sends is alive");
        })
        .join();
    }
    let dl_unwind = UNATTRIBUTED_DEAD_LETTERS.load(Ordering::SeqCst) - dl_before;
    let stalled = hb.max_late_since(bucket0) > STALL_US;
    // every dropped lease reported to the collector
    std::thread::sleep(Duration::from_millis(20));
    let reported = handled.load(Ordering::SeqCst);
    let _ = collector.kill();
    let _ = rt.block_on(async { tokio::time::timeout(Duration::from_secs(5), cjh).await });
    rt.shutdown_timeout(Duration::from_secs(2));
    let mut t = tot.lock().unwrap();
    t.rounds += 1;
    t.hashes.insert(mix(ncalls, seed % 8));
    *t.nontrivial.entry("C17".into()).or_default() += 1;
    *t.nontrivial.entry("C03".into()).or_default() += 1;
    *t.obl.entry("C17.dead_actor").or_default() += ncalls;
    let mut v = vec![];
    if got < ncalls && !stalled {
        v.push(("C17.deadline", format!("[dropsend] {} of {ncalls} timed blocking calls (2 s timeout) to a stopped actor, carrying a message whose destructor makes a timed blocking call to a live collector, had not returned after 12 s", ncalls - got)));
    }
    for b in bad {
        v.push(("C17.dead_actor", format!("[dropsend] {b}")));
    }
    if got == ncalls && reported != ncalls && !stalled {
        v.push(("C17.same_rules", format!("[dropsend] {ncalls} leases were dropped undelivered but the collector handled {reported} reports (the destructor's own blocking_tell(Some(500 ms)) to a live idle actor did not deliver exactly once)")));
    }
    *t.obl.entry("C13.one_per_failure").or_default() += 1;
    if got == ncalls && dl_unwind != 1 {
        v.push(("C13.one_per_failure", format!("[dropsend] a guard's destructor ran while its thread was unwinding from a panic and made a blocking_tell(None) to a stopped actor (which fails): {dl_unwind} dead letter(s) were recorded for it instead of 1")));
    }
    for (c, m) in v {
        if prop == "all" || prop == "C17" || prop == "C03" || (prop == "C13" && c.starts_with("C13")) {
            t.viol.push((c.into(), m, seed, "dropsend".into()));
        }
    }
}

// ---------------------------------------------------------------------------------------------
// nest: supervision. A parent actor spawns its child INSIDE its own hooks (on_start, or lazily in a handler), forwards requests
// to it (handler -> ask -> child), and restarts it on request: ends the child (stop / kill / dropping the only reference),
// awaits the child's JoinHandle inside the handler, takes the actor state out of the ActorResult and spawns the successor from
// that state. The parent's on_stop stops the last child and awaits it. Clients may live on a second runtime. Everything the
// properties promise for one actor must survive this composition: every forwarded request answered with its own value (C03),
// the state handed from incarnation to incarnation counts every request exactly once (C01, C05), on_stop once per incarnation
// with the right `killed` (C04, C05), fresh ids (C11), a handle to a finished incarnation is dead and its sends fail with
// exactly one dead letter each (C11, C13), no deadlock panic (C15: parent -> child is the only edge there ever is).
// ---------------------------------------------------------------------------------------------
mod nest {
    use rsactor::{Actor, ActorRef, ActorResult, ActorWeak, Message};
    use std::sync::atomic::{AtomicU64, Ordering};
    use std::sync::{Arc, Mutex};
    #[derive(Default)]
    pub struct Shared {
        pub ids: Mutex<Vec<u64>>,
        pub stops: Mutex<Vec<(u32, bool)>>, // (incarnation, killed) per on_stop call of a child
        pub viol: Mutex<Vec<(&'static str, String)>>,
        pub final_handled: AtomicU64,
        pub parent_stop: AtomicU64,
    }
    pub struct ChildState {
        pub handled: u64,
        pub gen: u32,
        pub sh: Arc<Shared>,
    }
    pub struct Child(pub ChildState);
    impl Actor for Child {
        type Args = ChildState;
        type Error = String;
        async fn on_start(a: ChildState, me: &ActorRef<Self>) -> Result<Self, String> {
            a.sh.ids.lock().unwrap().push(me.identity().id);
            Ok(Child(a))
        }
        async fn on_stop(&mut self, _: &ActorWeak<Self>, killed: bool) -> Result<(), String> {
            self.0.sh.stops.lock().unwrap().push((self.0.gen, killed));
            Ok(())
        }
    }
    pub struct Double(pub u64, pub u64);
    impl Message<Double> for Child {
        type Reply = u64;
        async fn handle(&mut self, d: Double, _: &ActorRef<Self>) -> u64 {
            self.0.handled += 1;
            if d.1 > 0 {
                tokio::time::sleep(std::time::Duration::from_micros(d.1)).await;
            }
            2 * d.0
        }
    }
    pub struct Parent {
        pub child: Option<(ActorRef<Child>, tokio::task::JoinHandle<ActorResult<Child>>)>,
        pub sh: Arc<Shared>,
        pub cap: usize,
    }
    pub struct PArgs {
        pub sh: Arc<Shared>,
        pub cap: usize,
        pub lazy: bool,
    }
    fn spawn_child(st: ChildState, cap: usize) -> (ActorRef<Child>, tokio::task::JoinHandle<ActorResult<Child>>) {
        if cap == 0 {
            rsactor::spawn::<Child>(st)
        } else {
            rsactor::spawn_with_mailbox_capacity::<Child>(st, cap)
        }
    }
    impl Actor for Parent {
        type Args = PArgs;
        type Error = String;
        async fn on_start(a: PArgs, me: &ActorRef<Self>) -> Result<Self, String> {
            a.sh.ids.lock().unwrap().push(me.identity().id);
            let child = if a.lazy { None } else { Some(spawn_child(ChildState { handled: 0, gen: 0, sh: a.sh.clone() }, a.cap)) };
            Ok(Parent { child, sh: a.sh, cap: a.cap })
        }
        async fn on_stop(&mut self, _: &ActorWeak<Self>, _killed: bool) -> Result<(), String> {
            self.sh.parent_stop.fetch_add(1, Ordering::SeqCst);
            if let Some((c, jh)) = self.child.take() {
                let _ = c.stop().await;
                drop(c);
                match tokio::time::timeout(std::time::Duration::from_secs(8), jh).await {
                    Ok(Ok(ActorResult::Completed { actor, killed })) => {
                        if killed {
                            self.sh.viol.lock().unwrap().push(("C05.result", "the last child was ended with stop() from its parent's on_stop but its result says killed=true".into()));
                        }
                        self.sh.final_handled.store(actor.0.handled, Ordering::SeqCst);
                    }
                    Ok(other) => self.sh.viol.lock().unwrap().push(("C05.result", format!("the last child, stopped from its parent's on_stop, ended with {}", short(&other)))),
                    Err(_) => self.sh.viol.lock().unwrap().push(("C07.resolves", "the last child was stopped from its parent's on_stop but its JoinHandle had not resolved 8 s later".into())),
                }
            }
            Ok(())
        }
    }
    pub fn short(r: &Result<ActorResult<Child>, tokio::task::JoinError>) -> String {
        match r {
            Ok(ActorResult::Completed { killed, .. }) => format!("Completed {{ killed: {killed} }}"),
            Ok(ActorResult::Failed { phase, killed, error, .. }) => format!("Failed {{ phase: {phase:?}, killed: {killed}, error: {error:?} }}"),
            Err(e) => format!("JoinError({e})"),
        }
    }
    impl Parent {
        fn ensure(&mut self) -> ActorRef<Child> {
            if self.child.is_none() {
                self.child = Some(spawn_child(ChildState { handled: 0, gen: 0, sh: self.sh.clone() }, self.cap));
            }
            self.child.as_ref().unwrap().0.clone()
        }
    }
    pub struct Fwd(pub u64, pub u64);
    impl Message<Fwd> for Parent {
        type Reply = Result<u64, String>;
        async fn handle(&mut self, f: Fwd, _: &ActorRef<Self>) -> Result<u64, String> {
            let c = self.ensure();
            c.ask(Double(f.0, f.1)).await.map(|v| v + 1).map_err(|e| format!("{e:?}"))
        }
    }
    pub struct GetChild;
    impl Message<GetChild> for Parent {
        type Reply = ActorRef<Child>;
        async fn handle(&mut self, _: GetChild, _: &ActorRef<Self>) -> ActorRef<Child> {
            self.ensure()
        }
    }
    /// how the current child is ended: 0 stop(), 1 kill(), 2 dropping the parent's (only) strong reference
    pub struct Restart(pub u8);
    impl Message<Restart> for Parent {
        type Reply = Result<u64, String>;
        async fn handle(&mut self, r: Restart, _: &ActorRef<Self>) -> Result<u64, String> {
            self.ensure();
            let (c, jh) = self.child.take().unwrap();
            match r.0 {
                0 => c.stop().await.map_err(|e| format!("stop: {e:?}"))?,
                1 => c.kill().map_err(|e| format!("kill: {e:?}"))?,
                _ => {}
            }
            drop(c);
            let res = match tokio::time::timeout(std::time::Duration::from_secs(8), jh).await {
                Ok(r) => r,
                Err(_) => return Err("child JoinHandle did not resolve within 8 s".into()),
            };
            match res {
                Ok(ActorResult::Completed { actor, killed }) => {
                    if killed != (r.0 == 1) {
                        self.sh.viol.lock().unwrap().push(("C05.result", format!("a child ended by {} reports killed={killed}", ["stop()", "kill()", "dropping its only strong reference"][r.0 as usize])));
                    }
                    let st = ChildState { handled: actor.0.handled, gen: actor.0.gen + 1, sh: self.sh.clone() };
                    let (nc, njh) = spawn_child(st, self.cap);
                    let id = nc.identity().id;
                    self.child = Some((nc, njh));
                    Ok(id)
                }
                other => Err(format!("child ended with {}", short(&other))),
            }
        }
    }
}

fn round_nest(seed: u64, hb: &Heartbeat, tot: &Mutex<Tot>, prop: &str) {
    use nest::*;
    let mut r = Rng::new(seed);
    let workers = [0usize, 2, 4][r.below(3) as usize];
    let mk = |w: usize| if w == 0 { tokio::runtime::Builder::new_current_thread().enable_time().build().unwrap() } else { tokio::runtime::Builder::new_multi_thread().worker_threads(w).enable_time().build().unwrap() };
    let rt = mk(workers);
    // the parent (and with it every child) may live on a runtime of its own, driven by its own thread(s)
    let rt_p = if r.chance(40) { Some(mk(1 + r.below(2) as usize)) } else { None };
    let cap = [0usize, 1, 2, 33][r.below(4) as usize];
    let lazy = r.chance(40);
    let nclients = 1 + r.below(4) as usize;
    let per = 3 + r.below(12);
    let nrestarts = 1 + r.below(4);
    let kinds: Vec<u8> = (0..nrestarts).map(|_| r.below(3) as u8).collect();
    let hold_old = r.chance(70);
    let delays: Vec<u64> = (0..nclients).map(|_| [0u64, 0, 50, 300][r.below(4) as usize]).collect();
    let bucket0 = hb.now_bucket();
    let sh = Arc::new(Shared::default());
    let dl0 = UNATTRIBUTED_DEAD_LETTERS.load(Ordering::SeqCst);
    let mut v: Vec<(&'static str, String)> = vec![];
    let mut hung = false;
    let mut oks = 0u64;
    let mut failed_sends = 0u64;
    let mut restarts_done = 0u64;
    let kinds2 = kinds.clone();
    let sh2 = sh.clone();
    let outcome = rt.block_on(async {
        let (p, pjh) = {
            let _g = rt_p.as_ref().map(|r| r.enter());
            rsactor::spawn::<Parent>(PArgs { sh: sh2.clone(), cap, lazy })
        };
        let mut tasks = vec![];
        for (k, d) in delays.iter().enumerate() {
            let (p, d) = (p.clone(), *d);
            tasks.push(tokio::spawn(async move {
                let mut ok = 0u64;
                let mut bad = vec![];
                for i in 0..per {
                    let x = (k as u64) * 1000 + i;
                    match p.ask(Fwd(x, d)).await {
                        Ok(Ok(val)) if val == 2 * x + 1 => ok += 1,
                        other => bad.push(format!("Fwd({x}) through the parent returned {other:?} instead of Ok(Ok({}))", 2 * x + 1)),
                    }
                    if i % 3 == 2 {
                        tokio::task::yield_now().await;
                    }
                }
                (ok, bad)
            }));
        }
        // the operator: restarts the child; keeps a handle to the old incarnation when that cannot keep it alive
        let op = {
            let p = p.clone();
            tokio::spawn(async move {
                let mut bad: Vec<(&'static str, String)> = vec![];
                let mut failed = 0u64;
                let mut done = 0u64;
                for kind in kinds2 {
                    tokio::time::sleep(Duration::from_micros(200)).await;
                    let old = match p.ask(GetChild).await {
                        Ok(c) => c,
                        Err(e) => {
                            bad.push(("C03.integrity", format!("GetChild on the live parent returned {e:?}")));
                            break;
                        }
                    };
                    let old_id = old.identity().id;
                    let weak = rsactor::ActorRef::downgrade(&old);
                    // a strong handle in foreign hands would keep a child alive that is to end by losing its last reference
                    let old = if kind != 2 && hold_old { Some(old) } else { drop(old); None };
                    match p.ask(Restart(kind)).await {
                        Ok(Ok(new_id)) => {
                            done += 1;
                            if new_id == old_id {
                                bad.push(("C11.unique", format!("the successor of child #{old_id} was given the same id")));
                            }
                            // the parent awaited the old incarnation's JoinHandle before it answered
                            if weak.upgrade().is_some() && old.is_none() {
                                bad.push(("C11.upgrade", format!("child #{old_id} has ended (its parent awaited its JoinHandle) and nobody holds a strong reference, yet its weak handle upgrades")));
                            }
                            if let Some(o) = &old {
                                if o.is_alive() {
                                    bad.push(("C11.alive_false", format!("child #{old_id} has ended (its parent awaited its JoinHandle) yet is_alive() is true on a handle a client kept")));
                                }
                                if o.tell(Double(1, 0)).await.is_ok() {
                                    bad.push(("C11.send_after_end", format!("tell to child #{old_id} after it ended returned Ok")));
                                } else {
                                    failed += 1;
                                }
                                match o.ask(Double(1, 0)).await {
                                    Ok(x) => bad.push(("C03.after_end", format!("ask to child #{old_id} after it ended returned Ok({x})"))),
                                    Err(_) => failed += 1,
                                }
                            }
                        }
                        Ok(Err(e)) => {
                            bad.push(("C07.resolves", format!("restarting the child (kind {kind}: {}) failed: {e}", ["stop()", "kill()", "dropping its only strong reference"][kind as usize])));
                            break;
                        }
                        Err(e) => {
                            bad.push(("C03.integrity", format!("Restart on the live parent returned {e:?}")));
                            break;
                        }
                    }
                }
                (bad, failed, done)
            })
        };
        let all = async {
            let mut ok = 0u64;
            let mut bad: Vec<(&'static str, String)> = vec![];
            for t in tasks {
                match t.await {
                    Ok((o, b)) => {
                        ok += o;
                        bad.extend(b.into_iter().map(|m| ("C03.integrity", m)));
                    }
                    Err(e) => bad.push(("C03.integrity", format!("client task died: {e}"))),
                }
            }
            let (b2, failed, done) = op.await.unwrap_or_else(|e| (vec![("C03.integrity", format!("operator task died: {e}"))], 0, 0));
            bad.extend(b2);
            let _ = p.stop().await;
            drop(p);
            let pres = pjh.await;
            (ok, bad, failed, done, pres)
        };
        tokio::time::timeout(Duration::from_secs(30), all).await
    });
    let stalled = hb.max_late_since(bucket0) > STALL_US;
    match outcome {
        Ok((ok, bad, failed, done, pres)) => {
            oks = ok;
            failed_sends = failed;
            restarts_done = done;
            v.extend(bad);
            match pres {
                Ok(rsactor::ActorResult::Completed { killed: false, .. }) => {}
                Ok(rsactor::ActorResult::Completed { killed: true, .. }) => v.push(("C05.result", "the parent was ended with stop() but its result says killed=true".into())),
                Ok(rsactor::ActorResult::Failed { phase, error, .. }) => v.push(("C05.result", format!("the parent ended as Failed {{ phase: {phase:?}, error: {error:?} }} although none of its hooks failed"))),
                Err(e) => {
                    let msg = if e.is_panic() {
                        let p = e.into_panic();
                        p.downcast_ref::<String>().cloned().or_else(|| p.downcast_ref::<&str>().map(|s| s.to_string())).unwrap_or_default()
                    } else {
                        format!("{e}")
                    };
                    v.push((if msg.contains("Deadlock") { "C15.sound" } else { "C05.panic" }, format!("the parent's JoinHandle reports a panic/cancellation ({msg:?}) although no hook of the workload panics (parent -> child is the only ask edge there is)")));
                }
            }
        }
        Err(_) => hung = true,
    }
    if let Some(rp) = rt_p {
        rp.shutdown_timeout(Duration::from_secs(2));
    }
    rt.shutdown_timeout(Duration::from_secs(2));
    v.extend(sh.viol.lock().unwrap().drain(..));
    let mut t = tot.lock().unwrap();
    t.rounds += 1;
    t.hashes.insert(mix(mix(workers as u64, cap as u64), mix(nclients as u64 * 16 + nrestarts, kinds.iter().fold(lazy as u64, |a, k| a * 3 + *k as u64))));
    for p in ["C01", "C03", "C04", "C05", "C07", "C11", "C13", "C15"] {
        *t.nontrivial.entry(p.into()).or_default() += 1;
    }
    if hung {
        if stalled {
            t.inconclusive.push(format!("[nest] round {seed} did not finish within 30 s on a stalled machine"));
        } else {
            v.push(("C03.complete", format!("[nest] clients x{nclients} forwarding through a parent to its child (capacity {cap}, {nrestarts} restarts of kinds {kinds:?}) had not all finished after 30 s")));
        }
    } else if v.is_empty() {
        let total = nclients as u64 * per;
        *t.obl.entry("C03.integrity").or_default() += total;
        *t.obl.entry("C01.once").or_default() += total;
        *t.obl.entry("C05.state").or_default() += 1 + restarts_done;
        *t.obl.entry("C04.stop_once").or_default() += 1 + restarts_done;
        *t.obl.entry("C11.unique").or_default() += 2 + restarts_done;
        *t.obl.entry("C13.one_per_failure").or_default() += failed_sends;
        if oks != total {
            v.push(("C03.integrity", format!("{oks} of {total} forwarded requests came back right")));
        }
        let fh = sh.final_handled.load(Ordering::SeqCst);
        // every incarnation was created from the state its predecessor's ActorResult returned
        if fh != total + 0 && restarts_done == nrestarts {
            v.push(("C05.state", format!("{total} requests were forwarded to (and answered by) the child across {restarts_done} restarts, each successor being created from the actor state returned in its predecessor's ActorResult, but the last incarnation's state counts {fh} handled")));
        }
        let stops = sh.stops.lock().unwrap().clone();
        let mut per_gen: BTreeMap<u32, u32> = BTreeMap::new();
        for (g, _) in &stops {
            *per_gen.entry(*g).or_default() += 1;
        }
        let incarnations = 1 + restarts_done as usize;
        if per_gen.len() != incarnations || per_gen.values().any(|n| *n != 1) {
            v.push(("C04.stop_once", format!("{incarnations} child incarnations ended gracefully or by kill, on_stop calls per incarnation: {per_gen:?}")));
        }
        for (g, k) in &stops {
            let want = kinds.get(*g as usize).map(|x| *x == 1).unwrap_or(false);
            if *k != want {
                v.push(("C04.killed_arg", format!("child incarnation {g} was ended by {} but on_stop got killed={k}", kinds.get(*g as usize).map(|x| ["stop()", "kill()", "dropping its only strong reference"][*x as usize]).unwrap_or("its parent's on_stop (stop())"))));
            }
        }
        if sh.parent_stop.load(Ordering::SeqCst) != 1 {
            v.push(("C04.stop_once", format!("the parent's on_stop ran {} times", sh.parent_stop.load(Ordering::SeqCst))));
        }
        let ids = sh.ids.lock().unwrap().clone();
        let uniq: BTreeSet<u64> = ids.iter().copied().collect();
        if uniq.len() != ids.len() || ids.len() != 1 + incarnations {
            v.push(("C11.unique", format!("parent + {incarnations} child incarnations started, ids seen by their on_start: {ids:?}")));
        }
        let dl = UNATTRIBUTED_DEAD_LETTERS.load(Ordering::SeqCst) - dl0;
        if dl != failed_sends {
            v.push(("C13.one_per_failure", format!("{failed_sends} sends to ended child incarnations failed (nothing else failed) but {dl} dead letters were recorded")));
        }
    }
    for (c, m) in v {
        if prop == "all" || c.starts_with(prop) {
            t.viol.push((c.into(), if m.starts_with("[nest]") { m } else { format!("[nest] {m}") }, seed, "nest".into()));
        }
    }
}

// ---------------------------------------------------------------------------------------------
// killstorm: several OS threads are inside kill() at the same instant, each on actors of its own. kill() is a per-actor
// operation: whatever other kill() calls are in progress elsewhere in the process, a kill() that returns Ok on a running actor
// ends that actor (killed=true), without blocking.
// ---------------------------------------------------------------------------------------------
fn round_killstorm(seed: u64, hb: &Heartbeat, tot: &Mutex<Tot>, prop: &str) {
    use ab::*;
    let mut r = Rng::new(seed);
    let nthreads = 2 + r.below(5) as usize;
    let batch = 8 + r.below(56) as usize;
    let erased = r.chance(30);
    let rt = tokio::runtime::Builder::new_multi_thread().worker_threads(2).enable_time().build().unwrap();
    let bucket0 = hb.now_bucket();
    let handled = Arc::new(AtomicU64::new(0));
    let mut groups = vec![];
    let mut jhs = vec![];
    rt.block_on(async {
        for _ in 0..nthreads {
            let mut g = vec![];
            for _ in 0..batch {
                let (a, jh) = rsactor::spawn::<A>(Args { handled: handled.clone(), start_ms: 0, ticks: false });
                let _ = a.ask(Work(0, 0)).await;
                g.push(a);
                jhs.push(jh);
            }
            groups.push(g);
        }
    });
    let go = Arc::new(AtomicBool::new(false));
    let ready = Arc::new(AtomicU64::new(0));
    let mut ths = vec![];
    for g in groups {
        let (go, ready) = (go.clone(), ready.clone());
        ths.push(std::thread::spawn(move || {
            use rsactor::ActorControl;
            let ctl: Vec<Box<dyn ActorControl>> = if erased { g.iter().map(|a| a.into()).collect() } else { vec![] };
            ready.fetch_add(1, Ordering::SeqCst);
            while !go.load(Ordering::Acquire) {
                std::hint::spin_loop();
            }
            let t = Instant::now();
            let mut errs = 0u64;
            if erased {
                for c in &ctl {
                    if c.kill().is_err() {
                        errs += 1;
                    }
                }
            } else {
                for a in &g {
                    if a.kill().is_err() {
                        errs += 1;
                    }
                }
            }
            (errs, t.elapsed(), g)
        }));
    }
    while ready.load(Ordering::SeqCst) < nthreads as u64 {
        std::thread::yield_now();
    }
    go.store(true, Ordering::Release);
    let mut errs = 0u64;
    let mut slowest = Duration::ZERO;
    let mut keep = vec![];
    for t in ths {
        if let Ok((e, d, g)) = t.join() {
            errs += e;
            slowest = slowest.max(d);
            keep.push(g);
        }
    }
    let total = jhs.len();
    let (mut not_ended, mut not_killed) = (0usize, vec![]);
    rt.block_on(async {
        let deadline = tokio::time::Instant::now() + Duration::from_secs(6);
        for jh in jhs {
            match tokio::time::timeout_at(deadline, jh).await {
                Ok(Ok(rsactor::ActorResult::Completed { killed: true, .. })) => {}
                Ok(Ok(other)) => not_killed.push(format!("{:?}", (other.is_completed(), other.was_killed()))),
                Ok(Err(e)) => not_killed.push(format!("JoinError {e}")),
                Err(_) => not_ended += 1,
            }
        }
    });
    drop(keep);
    let stalled = hb.max_late_since(bucket0) > STALL_US;
    rt.shutdown_timeout(Duration::from_secs(2));
    let mut t = tot.lock().unwrap();
    t.rounds += 1;
    t.hashes.insert(mix(nthreads as u64 * 64 + batch as u64, erased as u64));
    *t.nontrivial.entry("C06".into()).or_default() += 1;
    *t.obl.entry("C06.preempt").or_default() += total as u64;
    *t.obl.entry("C06.nonblocking").or_default() += total as u64;
    let mut v: Vec<(&str, String)> = vec![];
    if errs > 0 {
        v.push(("C06.nonblocking", format!("[killstorm] {errs} of {total} kill() calls on running actors returned Err")));
    }
    if not_ended > 0 {
        if stalled {
            t.inconclusive.push(format!("[killstorm] round {seed}: {not_ended} actors had not ended 6 s after kill() on a stalled machine"));
        } else {
            v.push(("C06.preempt", format!("[killstorm] {nthreads} threads called kill() at the same instant, each on {batch} idle actors of its own ({}); every call returned Ok, yet {not_ended} of the {total} actors had not ended 6 s later", if erased { "through Box<dyn ActorControl>" } else { "through ActorRef" })));
        }
    }
    if !not_killed.is_empty() {
        v.push(("C06.killed", format!("[killstorm] {} of {total} actors ended by kill() do not report Completed {{ killed: true }}: {:?}", not_killed.len(), &not_killed[..not_killed.len().min(3)])));
    }
    if slowest > Duration::from_millis(500) && !stalled {
        v.push(("C06.nonblocking", format!("[killstorm] a thread needed {slowest:?} for {batch} kill() calls")));
    }
    for (c, m) in v {
        if prop == "all" || c.starts_with(prop) {
            t.viol.push((c.into(), m, seed, "killstorm".into()));
        }
    }
}

// ---------------------------------------------------------------------------------------------
// blockpair: two timed blocking calls from two threads at once, to unrelated actors. The first is legitimately slow (its
// callee parks; generous timeout). The second must be served on its own terms while the first is still pending: an ended
// target fails at once (C03), a live idle target answers, a busy target times out at ITS deadline (C10) - the blocking
// variants obey the same rules whatever else is going on in the process (C17).
// ---------------------------------------------------------------------------------------------
fn round_blockpair(seed: u64, hb: &Heartbeat, tot: &Mutex<Tot>, prop: &str) {
    use ab::*;
    let mut r = Rng::new(seed);
    let rt = tokio::runtime::Builder::new_multi_thread().worker_threads(2).enable_time().build().unwrap();
    let bucket0 = hb.now_bucket();
    let handled = Arc::new(AtomicU64::new(0));
    let (slow, sjh, dead, live, ljh) = rt.block_on(async {
        let (s, sjh) = rsactor::spawn::<A>(Args { handled: handled.clone(), start_ms: 0, ticks: false });
        let (d, djh) = rsactor::spawn::<A>(Args { handled: Arc::new(AtomicU64::new(0)), start_ms: 0, ticks: false });
        let _ = d.stop().await;
        let _ = djh.await;
        let (l, ljh) = rsactor::spawn::<A>(Args { handled: Arc::new(AtomicU64::new(0)), start_ms: 0, ticks: false });
        (s, sjh, d, l, ljh)
    });
    let sem = Arc::new(tokio::sync::Semaphore::new(0));
    let first_tell = r.chance(20);
    // first call: slow by design
    let t1 = {
        let (slow, sem) = (slow.clone(), sem.clone());
        std::thread::spawn(move || slow.blocking_ask(Park(sem), Some(Duration::from_secs(60))))
    };
    let t0 = Instant::now();
    while handled.load(Ordering::SeqCst) == 0 && t0.elapsed() < Duration::from_secs(5) {
        std::thread::sleep(Duration::from_millis(1));
    }
    if first_tell {
        // a second slow one: a timed blocking tell parked on nothing - it is accepted (capacity 32) at once; harmless
        let _ = slow.blocking_tell(Work(0, 0), Some(Duration::from_secs(60)));
    }
    // second call(s)
    let variant = r.below(4);
    let (tx, rx) = std::sync::mpsc::channel();
    {
        let (dead, live, slow, tx) = (dead.clone(), live.clone(), slow.clone(), tx.clone());
        std::thread::spawn(move || {
            let t = Instant::now();
            let out: (u64, String, bool) = match variant {
                0 => {
                    let r = dead.blocking_ask(Work(1, 0), Some(Duration::from_millis(500)));
                    (0, format!("{r:?}"), matches!(r, Err(rsactor::Error::Send { .. })))
                }
                1 => {
                    let r = dead.blocking_tell(Work(1, 0), Some(Duration::from_millis(500)));
                    (1, format!("{r:?}"), matches!(r, Err(rsactor::Error::Send { .. })))
                }
                2 => {
                    let r = live.blocking_ask(Work(7, 0), Some(Duration::from_millis(2000)));
                    (2, format!("{r:?}"), matches!(r, Ok(7)))
                }
                _ => {
                    // the parked actor cannot answer: Timeout at this call's own deadline
                    let r = slow.blocking_ask(Work(9, 0), Some(Duration::from_millis(100)));
                    (3, format!("{r:?}"), matches!(r, Err(rsactor::Error::Timeout { .. })))
                }
            };
            let _ = tx.send((out, t.elapsed()));
        });
    }
    let second = rx.recv_timeout(Duration::from_secs(6));
    let first_still_pending = !t1.is_finished();
    sem.add_permits(8);
    let first = t1.join();
    let stalled = hb.max_late_since(bucket0) > STALL_US;
    let _ = slow.kill();
    let _ = live.kill();
    let _ = rt.block_on(async {
        let _ = tokio::time::timeout(Duration::from_secs(5), sjh).await;
        tokio::time::timeout(Duration::from_secs(5), ljh).await
    });
    rt.shutdown_timeout(Duration::from_secs(2));
    let what = ["blocking_ask(Some(500 ms)) to an actor that has ended", "blocking_tell(Some(500 ms)) to an actor that has ended", "blocking_ask(Some(2 s)) to a live idle actor", "blocking_ask(Some(100 ms)) to the parked actor"][variant as usize];
    let mut v: Vec<(&str, &str, &str, String)> = vec![]; // (C03 clause, C10 clause, C17 clause, msg)
    match second {
        Err(_) => {
            if !stalled {
                v.push(("C03.complete", "C10.late", "C17.deadline", format!("[blockpair] a {what} had not returned after 6 s while another thread's timed blocking_ask (60 s timeout) to an unrelated, parked actor was pending (first call still pending: {first_still_pending})")));
            }
        }
        Ok(((_, shown, right), el)) => {
            if !right {
                v.push(("C03.integrity", "C10.timeout_iff", "C17.same_rules", format!("[blockpair] a {what}, made while another thread's timed blocking_ask to an unrelated parked actor was pending, returned {shown}")));
            }
            let limit = Duration::from_millis([400u64, 400, 1500, 100 + 900][variant as usize]);
            if el > limit && !stalled {
                v.push(("C03.complete", "C10.late", "C17.deadline", format!("[blockpair] a {what} took {el:?} while another thread's timed blocking call to an unrelated parked actor was pending")));
            }
        }
    }
    match first {
        Ok(Ok(5)) => {}
        other => v.push(("C03.integrity", "C03.integrity", "C17.same_rules", format!("[blockpair] the slow first call (blocking_ask with a 60 s timeout to an actor that parks, released after the second call was over) returned {other:?} instead of Ok(5)"))),
    }
    let mut t = tot.lock().unwrap();
    t.rounds += 1;
    t.hashes.insert(mix(variant, first_tell as u64));
    for p in ["C03", "C10", "C17"] {
        *t.nontrivial.entry(p.into()).or_default() += 1;
    }
    *t.obl.entry("C03.complete").or_default() += 2;
    *t.obl.entry("C17.deadline").or_default() += 2;
    *t.obl.entry("C10.late").or_default() += 1;
    if stalled && !v.is_empty() {
        t.inconclusive.push(format!("blockpair round {seed}: machine stalled"));
        return;
    }
    for (c3, c10, c17, m) in v {
        let c = match prop {
            "C03" => c3,
            "C10" => c10,
            "C17" | "all" => c17,
            _ => continue,
        };
        if c.starts_with(prop) || prop == "all" {
            t.viol.push((c.into(), m, seed, "blockpair".into()));
        }
    }
}

// ---------------------------------------------------------------------------------------------
// poolfull: the documented way to use the blocking API from async code is spawn_blocking. Here the caller's runtime has a
// small blocking pool (max_blocking_threads = n) and exactly n callers sit in it at once. Whatever the crate needs in order to
// serve them (helper threads, cleanup work) must not be queued behind those very callers:
//   A  n timed blocking asks/tells to an idle live actor: all answered at once;
//   B  n untimed blocking asks queued at a busy actor, then the actor is killed: all fail promptly (C03);
//   C  after a long streak of FAILED timed blocking calls (dead target, expiring timeouts) the next call to an idle actor is
//      served as if nothing had happened - failures leave nothing behind (C10: Timeout iff the deadline passed).
// ---------------------------------------------------------------------------------------------
fn round_poolfull(seed: u64, hb: &Heartbeat, tot: &Mutex<Tot>, prop: &str) {
    use ab::*;
    let mut r = Rng::new(seed);
    let n = [1usize, 2, 2, 4][r.below(4) as usize];
    let variant = r.below(3);
    let rt = tokio::runtime::Builder::new_multi_thread().worker_threads(2).max_blocking_threads(n).enable_time().build().unwrap();
    let bucket0 = hb.now_bucket();
    let handled = Arc::new(AtomicU64::new(0));
    let (a, ajh, dead) = rt.block_on(async {
        let (a, ajh) = rsactor::spawn_with_mailbox_capacity::<A>(Args { handled: handled.clone(), start_ms: 0, ticks: false }, 16);
        let (d, djh) = rsactor::spawn::<A>(Args { handled: Arc::new(AtomicU64::new(0)), start_ms: 0, ticks: false });
        let _ = d.stop().await;
        let _ = djh.await;
        (a, ajh, d)
    });
    let sem = Arc::new(tokio::sync::Semaphore::new(0));
    let mut v: Vec<(&str, &str, &str, String)> = vec![]; // (C03, C10, C17 clause, msg)
    let mut obl = 0u64;
    if variant == 2 {
        // C: the streak, from a plain thread (nothing to do with the pool)
        let fails = 70 + r.below(30);
        for i in 0..fails {
            let res = if i % 2 == 0 { dead.blocking_ask(Work(1, 0), Some(Duration::from_millis(200))).map(|_| ()) } else { dead.blocking_tell(Work(1, 0), Some(Duration::from_millis(200))) };
            if res.is_ok() {
                v.push(("C03.after_end", "C10.timeout_iff", "C17.dead_actor", format!("[poolfull] timed blocking call #{i} to an ended actor returned Ok")));
                break;
            }
        }
        let t = Instant::now();
        let r1 = a.blocking_ask(Work(4, 0), Some(Duration::from_secs(3)));
        let e1 = t.elapsed();
        let r2 = a.blocking_tell(Work(5, 0), Some(Duration::from_secs(3)));
        obl += 2;
        let stalled = hb.max_late_since(bucket0) > STALL_US;
        if !matches!(r1, Ok(4)) || r2.is_err() || (e1 > Duration::from_millis(1500) && !stalled) {
            v.push(("C03.integrity", "C10.timeout_iff", "C17.same_rules", format!("[poolfull] after {fails} failed timed blocking calls to an ended actor, blocking_ask(Some(3 s)) to an idle live actor returned {r1:?} after {e1:?} and blocking_tell(Some(3 s)) returned {r2:?} (expected Ok(4) and Ok(()) at once)")));
        }
    } else {
        if variant == 1 {
            // B: make the actor busy first
            let _ = rt.block_on(a.tell(Park(sem.clone())));
            let t0 = Instant::now();
            while handled.load(Ordering::SeqCst) == 0 && t0.elapsed() < Duration::from_secs(5) {
                std::thread::sleep(Duration::from_millis(1));
            }
        }
        let barrier = Arc::new(std::sync::Barrier::new(n + 1));
        let (tx, rx) = std::sync::mpsc::channel();
        for k in 0..n {
            let (a, barrier, tx) = (a.clone(), barrier.clone(), tx.clone());
            let tell = variant == 0 && k % 2 == 1;
            rt.spawn_blocking(move || {
                barrier.wait();
                let t = Instant::now();
                let res: Result<u64, String> = if variant == 1 {
                    a.blocking_ask(Work(k as u64, 0), None).map_err(|e| format!("{e:?}"))
                } else if tell {
                    a.blocking_tell(Work(k as u64, 0), Some(Duration::from_millis(800))).map(|_| k as u64).map_err(|e| format!("{e:?}"))
                } else {
                    a.blocking_ask(Work(k as u64, 0), Some(Duration::from_millis(800))).map_err(|e| format!("{e:?}"))
                };
                let _ = tx.send((k, res, t.elapsed()));
            });
        }
        // every pool thread now holds a caller
        barrier.wait();
        if variant == 1 {
            std::thread::sleep(Duration::from_millis(20));
            let _ = a.kill();
            sem.add_permits(8);
        }
        let mut got = 0usize;
        let t0 = Instant::now();
        while got < n && t0.elapsed() < Duration::from_secs(6) {
            if let Ok((k, res, el)) = rx.recv_timeout(Duration::from_millis(100)) {
                got += 1;
                obl += 1;
                match (variant, &res) {
                    (0, Ok(x)) if *x == k as u64 => {}
                    (1, Err(_)) => {}
                    // B: an ask that was dequeued before the kill took effect may legitimately have been answered
                    (1, Ok(x)) if *x == k as u64 => {}
                    _ => v.push(("C03.integrity", "C10.timeout_iff", "C17.same_rules", format!("[poolfull] caller {k} of {n} (all inside spawn_blocking on a runtime with max_blocking_threads = {n}): {} returned {res:?} after {el:?}", if variant == 1 { "blocking_ask(None) queued at a busy actor that was then killed" } else { "a timed blocking call (800 ms) to an idle live actor" }))),
                }
            }
        }
        let stalled = hb.max_late_since(bucket0) > STALL_US;
        if got < n && !stalled {
            v.push(("C03.complete", "C10.late", "C17.deadline", format!("[poolfull] {} of {n} callers - every thread of the runtime's blocking pool (max_blocking_threads = {n}) holds one - had not returned after 6 s: {}", n - got, if variant == 1 { "blocking_ask(None) calls queued at an actor that has been killed (its JoinHandle is resolved) are still waiting" } else { "timed blocking calls (800 ms) to an idle live actor" })));
        }
    }
    let stalled = hb.max_late_since(bucket0) > STALL_US;
    let _ = a.kill();
    sem.add_permits(8);
    let _ = rt.block_on(async { tokio::time::timeout(Duration::from_secs(5), ajh).await });
    rt.shutdown_timeout(Duration::from_secs(2));
    let mut t = tot.lock().unwrap();
    t.rounds += 1;
    t.hashes.insert(mix(variant * 8 + n as u64, 0));
    for p in ["C03", "C10", "C17"] {
        *t.nontrivial.entry(p.into()).or_default() += 1;
    }
    *t.obl.entry("C03.complete").or_default() += obl;
    *t.obl.entry("C17.deadline").or_default() += obl;
    *t.obl.entry("C10.timeout_iff").or_default() += obl;
    if stalled && !v.is_empty() {
        t.inconclusive.push(format!("poolfull round {seed}: machine stalled"));
        return;
    }
    for (c3, c10, c17, m) in v {
        let c = match prop {
            "C03" => c3,
            "C10" => c10,
            "C17" | "all" => c17,
            _ => continue,
        };
        t.viol.push((c.into(), m, seed, "poolfull".into()));
    }
}

// ---------------------------------------------------------------------------------------------
// lastslot: several senders on different worker threads go for the last free slot(s) of a mailbox at the same instant with
// tell_with_timeout, while the actor is parked in a handler for longer than the timeout. Exactly as many as there are free
// slots succeed at once; the others WAIT (C09) and come back with Timeout at their deadline - not earlier, not with another
// error, not with an Ok obtained after the deadline (C10).
// ---------------------------------------------------------------------------------------------
fn round_lastslot(seed: u64, hb: &Heartbeat, tot: &Mutex<Tot>, prop: &str) {
    use ab::*;
    use rsactor::TellHandler;
    let mut r = Rng::new(seed);
    let rt = tokio::runtime::Builder::new_multi_thread().worker_threads(8).enable_time().build().unwrap();
    let cap = *r.pick(&[1usize, 2, 5]);
    let free = 1 + r.below((cap as u64).min(2)) as usize;
    let racers = free + 3 + r.below(3) as usize;
    let to_ms = 40u64;
    let hold_ms = 160u64;
    let bucket0 = hb.now_bucket();
    let handled = Arc::new(AtomicU64::new(0));
    let results: Vec<(Result<(), String>, Duration, bool)> = rt.block_on(async {
        let (a, jh) = rsactor::spawn_with_mailbox_capacity::<A>(Args { handled: handled.clone(), start_ms: 0, ticks: false }, cap);
        // park the actor, then fill the mailbox up to `free` free slots
        let a0 = a.clone();
        let parked = tokio::spawn(async move { a0.ask(Work(0, hold_ms)).await });
        while handled.load(Ordering::SeqCst) == 0 {
            tokio::task::yield_now().await;
        }
        for i in 0..(cap - free) {
            let _ = a.tell(Work(100 + i as u64, 0)).await;
        }
        let go = Arc::new(AtomicBool::new(false));
        let ready = Arc::new(AtomicU64::new(0));
        let mut hs = vec![];
        for k in 0..racers {
            let (a2, go, ready) = (a.clone(), go.clone(), ready.clone());
            let erased = k % 3 == 2;
            hs.push(tokio::spawn(async move {
                let th: Box<dyn TellHandler<Work>> = Box::new(a2.clone());
                ready.fetch_add(1, Ordering::SeqCst);
                while !go.load(Ordering::Acquire) {
                    std::hint::spin_loop();
                }
                let t = Instant::now();
                let res = if erased { th.tell_with_timeout(Work(200 + k as u64, 0), Duration::from_millis(to_ms)).await } else { a2.tell_with_timeout(Work(200 + k as u64, 0), Duration::from_millis(to_ms)).await };
                let el = t.elapsed();
                let timeout = matches!(res, Err(rsactor::Error::Timeout { .. }));
                (res.map_err(|e| format!("{e:?}")), el, timeout)
            }));
        }
        let t0 = Instant::now();
        while (ready.load(Ordering::SeqCst) as usize) < racers.min(7) && t0.elapsed() < Duration::from_secs(5) {
            std::thread::yield_now();
            tokio::task::yield_now().await;
        }
        go.store(true, Ordering::Release);
        let mut out = vec![];
        for h in hs {
            match tokio::time::timeout(Duration::from_secs(10), h).await {
                Ok(Ok(x)) => out.push(x),
                Ok(Err(_)) => out.push((Err("the racing task panicked".to_string()), Duration::ZERO, false)),
                Err(_) => out.push((Err("still pending 10 s after it was issued".to_string()), Duration::from_secs(10), false)),
            }
        }
        let _ = parked.await;
        let _ = a.kill();
        let _ = tokio::time::timeout(Duration::from_secs(5), jh).await;
        out
    });
    rt.shutdown_timeout(Duration::from_secs(2));
    let stalled = hb.max_late_since(bucket0) > 100_000;
    let mut t = tot.lock().unwrap();
    t.rounds += 1;
    t.hashes.insert(mix(cap as u64 * 16 + free as u64, racers as u64));
    *t.nontrivial.entry("C09".into()).or_default() += 1;
    *t.nontrivial.entry("C10".into()).or_default() += 1;
    if stalled {
        t.inconclusive.push(format!("lastslot round {seed}: machine stalled"));
        return;
    }
    *t.obl.entry("C09.waits").or_default() += racers as u64;
    *t.obl.entry("C10.returns").or_default() += racers as u64;
    let what = format!("{racers} senders called tell_with_timeout({to_ms} ms) at the same instant for the last {free} free slot(s) of a capacity-{cap} mailbox whose actor was parked in a handler for {hold_ms} ms");
    let mut v: Vec<(&str, String)> = vec![];
    let oks = results.iter().filter(|x| x.0.is_ok()).count();
    for (res, el, timeout) in &results {
        match res {
            Ok(()) => {
                if *el > Duration::from_millis(to_ms + 40) {
                    v.push(("C10.late", format!("[lastslot] {what}: one of them returned Ok only after {el:?} - it was not waiting under its timeout")));
                }
            }
            Err(_) if *timeout => {
                if *el < Duration::from_millis(to_ms) {
                    v.push(("C10.early", format!("[lastslot] {what}: Timeout after only {el:?}")));
                }
                if *el > Duration::from_millis(to_ms + 60) {
                    v.push(("C10.late", format!("[lastslot] {what}: Timeout reported only after {el:?}")));
                }
            }
            Err(e) if e.contains("still pending") => v.push(("C10.late", format!("[lastslot] {what}: one call was {e}"))),
            Err(e) => v.push(("C09.waits", format!("[lastslot] {what}: one of them failed with {e} although the actor was alive - a send into a full mailbox waits, it does not fail"))),
        }
    }
    if oks != free && v.is_empty() {
        v.push(("C09.waits", format!("[lastslot] {what}: {oks} of them returned Ok")));
    }
    for (c, m) in v {
        if prop == "all" || c.starts_with(prop) {
            t.viol.push((c.into(), m, seed, "lastslot".into()));
        }
    }
}

// ---------------------------------------------------------------------------------------------
// hookblocking: a hook on a multi-thread runtime uses the blocking API on its own worker thread (tokio::task::block_in_place).
// The callee answers and - in its next handler, from a message it queued for itself - asks the first actor back. Nobody waits
// for anybody in a cycle: the blocking ask has been answered before the ask-back is made (C17; C18 when run on two builds).
// ---------------------------------------------------------------------------------------------
mod hk {
    use rsactor::{Actor, ActorRef, Message};
    use std::sync::atomic::{AtomicU64, Ordering};
    use std::sync::Arc;
    pub struct N {
        pub back_ok: Arc<AtomicU64>,
        pub back_err: Arc<AtomicU64>,
    }
    pub struct Outer(pub ActorRef<N>, pub bool);
    pub struct Inner(pub ActorRef<N>);
    pub struct Back2(pub ActorRef<N>);
    pub struct Ping;
    impl Actor for N {
        type Args = (Arc<AtomicU64>, Arc<AtomicU64>);
        type Error = String;
        async fn on_start(a: Self::Args, _: &ActorRef<Self>) -> Result<Self, String> {
            Ok(N { back_ok: a.0, back_err: a.1 })
        }
    }
    impl Message<Ping> for N {
        type Reply = u8;
        async fn handle(&mut self, _: Ping, _: &ActorRef<Self>) -> u8 {
            1
        }
    }
    impl Message<Outer> for N {
        type Reply = Option<u8>;
        async fn handle(&mut self, m: Outer, me: &ActorRef<Self>) -> Option<u8> {
            let me2 = me.clone();
            // the blocking API used from a hook: legal on a multi-thread runtime through block_in_place
            tokio::task::block_in_place(move || if m.1 { m.0.blocking_ask(Inner(me2), None).ok() } else { m.0.blocking_ask(Inner(me2), Some(std::time::Duration::from_secs(5))).ok() })
        }
    }
    /// a timed blocking ask made directly from the handler (no block_in_place), to the actor itself: it can only time out
    pub struct SelfBlock(pub u64);
    impl Message<SelfBlock> for N {
        type Reply = Option<bool>;
        async fn handle(&mut self, m: SelfBlock, me: &ActorRef<Self>) -> Option<bool> {
            let t0 = std::time::Instant::now();
            match me.blocking_ask(Ping, Some(std::time::Duration::from_millis(m.0))) {
                Err(rsactor::Error::Timeout { .. }) => Some(t0.elapsed() >= std::time::Duration::from_millis(m.0)),
                Err(_) => Some(false),
                Ok(_) => None,
            }
        }
    }
    impl Message<Inner> for N {
        type Reply = u8;
        async fn handle(&mut self, m: Inner, me: &ActorRef<Self>) -> u8 {
            // queue the ask-back for later (behind this request), then answer
            let _ = me.tell(Back2(m.0)).await;
            7
        }
    }
    impl Message<Back2> for N {
        type Reply = ();
        async fn handle(&mut self, m: Back2, _: &ActorRef<Self>) {
            match m.0.ask(Ping).await {
                Ok(_) => self.back_ok.fetch_add(1, Ordering::SeqCst),
                Err(_) => self.back_err.fetch_add(1, Ordering::SeqCst),
            };
        }
    }
}

fn round_hookblocking(seed: u64, hb: &Heartbeat, tot: &Mutex<Tot>, prop: &str) {
    use hk::*;
    let mut r = Rng::new(seed);
    let rt = tokio::runtime::Builder::new_multi_thread().worker_threads(2 + r.below(3) as usize).enable_time().build().unwrap();
    let bucket0 = hb.now_bucket();
    let iters = 10 + r.below(20);
    let (ok, err) = (Arc::new(AtomicU64::new(0)), Arc::new(AtomicU64::new(0)));
    let mut viol: Vec<String> = vec![];
    let done = rt.block_on(async {
        let (front, fjh) = rsactor::spawn::<N>((ok.clone(), err.clone()));
        let (back, bjh) = rsactor::spawn::<N>((ok.clone(), err.clone()));
        let mut done = 0u64;
        for i in 0..iters {
            let untimed = r.chance(50);
            match tokio::time::timeout(Duration::from_secs(15), front.ask(Outer(back.clone(), untimed))).await {
                Ok(Ok(Some(7))) => {}
                Ok(other) => {
                    viol.push(format!("iteration {i}: a handler's blocking_ask({}) through block_in_place to an idle actor gave {other:?}", if untimed { "None" } else { "Some(5 s)" }));
                    break;
                }
                Err(_) => {
                    viol.push(format!("iteration {i}: a handler's blocking_ask through block_in_place had not returned after 15 s"));
                    break;
                }
            }
            if i % 5 == 2 {
                // "the timeout variants can also be called from inside an async runtime context": a handler asks its own actor with
                // blocking_ask(Some(20 ms)) - nobody can answer while the handler blocks, so the call returns Timeout at its deadline
                let dl0 = UNATTRIBUTED_DEAD_LETTERS.load(Ordering::SeqCst);
                let selfblock = tokio::time::timeout(Duration::from_secs(15), front.ask(SelfBlock(20))).await;
                // that call failed (whatever error it reported): exactly one dead letter stands for it
                let dl = UNATTRIBUTED_DEAD_LETTERS.load(Ordering::SeqCst) - dl0;
                if matches!(selfblock, Ok(Ok(Some(_)))) && dl != 1 {
                    viol.push(format!("@C13 iteration {i}: a handler's blocking_ask(Some(20 ms)) to its own (busy) actor failed, and {dl} dead letter(s) were recorded for it instead of 1"));
                }
                match selfblock {
                    Ok(Ok(Some(true))) => {}
                    other => {
                        viol.push(format!("@C10 iteration {i}: a handler's blocking_ask(Some(20 ms)) to its own (busy) actor should return Timeout once 20 ms have passed, got {other:?} (None = it was answered, Some(false) = another error, or Timeout before the deadline)"));
                        break;
                    }
                }
            }
            // wait for the ask-back to be over
            if tokio::time::timeout(Duration::from_secs(15), back.ask(Ping)).await.map(|r| r.is_err()).unwrap_or(true) {
                viol.push(format!("iteration {i}: the callee did not survive asking the first actor back (after it had answered that actor's blocking ask)"));
                break;
            }
            done += 1;
        }
        let _ = front.kill();
        let _ = back.kill();
        for (name, jh) in [("front", fjh), ("back", bjh)] {
            if let Ok(Err(e)) = tokio::time::timeout(Duration::from_secs(10), jh).await {
                if e.is_panic() {
                    viol.push(format!("the {name} actor died of a panic: {}", panic_payload_to_string(e.into_panic().as_ref()).chars().take(160).collect::<String>()));
                }
            }
        }
        done
    });
    rt.shutdown_timeout(Duration::from_secs(2));
    let stalled = hb.max_late_since(bucket0) > STALL_US;
    let (nok, nerr) = (ok.load(Ordering::SeqCst), err.load(Ordering::SeqCst));
    if nerr > 0 {
        viol.push(format!("{nerr} ask-back(s) from the callee to the first actor failed ({nok} succeeded)"));
    }
    let mut t = tot.lock().unwrap();
    t.rounds += 1;
    t.hashes.insert(mix(iters, seed % 4));
    *t.nontrivial.entry("C17".into()).or_default() += 1;
    *t.obl.entry("C17.same_rules").or_default() += done;
    if stalled && !viol.is_empty() {
        t.inconclusive.push(format!("hookblocking round {seed}: machine stalled"));
        return;
    }
    *t.nontrivial.entry("C10".into()).or_default() += 1;
    *t.nontrivial.entry("C13".into()).or_default() += 1;
    *t.obl.entry("C10.timeout_iff").or_default() += done / 5;
    *t.obl.entry("C13.one_per_failure").or_default() += done / 5;
    for m in viol {
        // the timed self-ask is a timeout matter as well: Timeout iff the deadline passed first, other failures as themselves
        let (c10, m) = match m.strip_prefix("@C10 ") {
            Some(rest) => (true, rest.to_string()),
            None => (false, m),
        };
        if let Some(rest) = m.strip_prefix("@C13 ") {
            if prop == "C13" || prop == "all" {
                t.viol.push(("C13.one_per_failure".into(), format!("[hook-blocking] {rest}"), seed, "hookblocking".into()));
            }
            continue;
        }
        if prop == "C10" {
            if c10 {
                t.viol.push(("C10.timeout_iff".into(), format!("[hook-blocking] {m}"), seed, "hookblocking".into()));
            }
        } else if prop == "all" || prop == "C17" || prop == "C18" {
            t.viol.push(("C17.same_rules".into(), format!("[hook-blocking] {m}"), seed, "hookblocking".into()));
        }
    }
}

// ---------------------------------------------------------------------------------------------
// bigmsg: a message that is 32 KiB inline goes through every send flavour, from plain threads and from tasks. All of them move
// the value through whatever stacks the implementation uses; the blocking variants must cope like tell/ask do (C17). A stack
// overflow aborts the process - the orchestrator reports a harness process that dies with that message as a violation.
// ---------------------------------------------------------------------------------------------
fn round_bigmsg(seed: u64, tot: &Mutex<Tot>, prop: &str) {
    use ab::*;
    let rt = tokio::runtime::Builder::new_multi_thread().worker_threads(2).enable_time().build().unwrap();
    let handled = Arc::new(AtomicU64::new(0));
    let (a, jh) = {
        let _g = rt.enter();
        rsactor::spawn::<A>(Args { handled: handled.clone(), start_ms: 0, ticks: false })
    };
    let fill = (seed % 200) as u8 + 1;
    let want = fill as u64 * 32768;
    let mut bad = vec![];
    let a2 = a.clone();
    let r = std::thread::spawn(move || {
        let mut bad = vec![];
        let mk = || Big([fill; 32768]);
        if a2.blocking_tell(mk(), None).is_err() {
            bad.push("blocking_tell(None)".to_string());
        }
        if a2.blocking_tell(mk(), Some(Duration::from_secs(10))).is_err() {
            bad.push("blocking_tell(Some(10 s))".to_string());
        }
        match a2.blocking_ask(mk(), None) {
            Ok(v) if v == want => {}
            other => bad.push(format!("blocking_ask(None) -> {other:?}")),
        }
        match a2.blocking_ask(mk(), Some(Duration::from_secs(10))) {
            Ok(v) if v == want => {}
            other => bad.push(format!("blocking_ask(Some(10 s)) -> {other:?}")),
        }
        bad
    })
    .join();
    match r {
        Ok(b) => bad.extend(b),
        Err(_) => bad.push("the calling thread panicked".to_string()),
    }
    rt.block_on(async {
        if a.tell(Big([fill; 32768])).await.is_err() {
            bad.push("tell".to_string());
        }
        match a.ask_with_timeout(Big([fill; 32768]), Duration::from_secs(10)).await {
            Ok(v) if v == want => {}
            other => bad.push(format!("ask_with_timeout -> {other:?}")),
        }
        let _ = a.stop().await;
        let _ = tokio::time::timeout(Duration::from_secs(10), jh).await;
    });
    rt.shutdown_timeout(Duration::from_secs(2));
    let n = handled.load(Ordering::SeqCst);
    let mut t = tot.lock().unwrap();
    t.rounds += 1;
    t.hashes.insert(fill as u64);
    *t.nontrivial.entry("C17".into()).or_default() += 1;
    *t.obl.entry("C17.same_rules").or_default() += 6;
    if n != 6 && bad.is_empty() {
        bad.push(format!("6 sends of a 32 KiB message all reported success but {n} were handled"));
    }
    if !bad.is_empty() && (prop == "all" || prop == "C17") {
        t.viol.push(("C17.same_rules".into(), format!("[bigmsg] a message that is 32 KiB inline, sent to an idle actor: {:?}", bad), seed, "bigmsg".into()));
    }
}

// ---------------------------------------------------------------------------------------------
// abort: the actor's JoinHandle is resolved by `JoinHandle::abort()` while strong references exist.
// Whatever made the handle resolve, "is_alive() is false once its JoinHandle has resolved, after which
// every send fails" (C11) and "every ask still pending on it and every later ask returns an Err" (C03).
// ---------------------------------------------------------------------------------------------
mod ab {
    use rsactor::{Actor, ActorRef, ActorWeak, Message};
    use std::sync::atomic::{AtomicU64, Ordering};
    use std::sync::Arc;
    pub struct A {
        pub handled: Arc<AtomicU64>,
        pub ticks: bool,
    }
    pub struct Args {
        pub handled: Arc<AtomicU64>,
        pub start_ms: u64,
        pub ticks: bool,
    }
    pub struct Work(pub u64, pub u64);
    impl Actor for A {
        type Args = Args;
        type Error = String;
        async fn on_start(a: Args, _: &ActorRef<Self>) -> Result<Self, String> {
            if a.start_ms > 0 {
                tokio::time::sleep(std::time::Duration::from_millis(a.start_ms)).await;
            }
            Ok(A { handled: a.handled, ticks: a.ticks })
        }
        async fn on_run(&mut self, _: &ActorWeak<Self>) -> Result<bool, String> {
            if self.ticks {
                tokio::time::sleep(std::time::Duration::from_millis(1)).await;
                Ok(true)
            } else {
                Ok(false)
            }
        }
    }
    /// a guard whose destructor sends (untimed blocking tell) - used while its thread is unwinding from a panic
    pub struct PanicLease(pub ActorRef<A>);
    impl Drop for PanicLease {
        fn drop(&mut self) {
            let _ = self.0.blocking_tell(Work(0, 0), None);
        }
    }
    /// a message that is large inline (32 KiB on the stack of whoever moves it)
    pub struct Big(pub [u8; 32768]);
    impl Message<Big> for A {
        type Reply = u64;
        async fn handle(&mut self, b: Big, _: &ActorRef<Self>) -> u64 {
            self.handled.fetch_add(1, Ordering::SeqCst);
            b.0.iter().map(|x| *x as u64).sum()
        }
    }
    /// a message with a destructor that itself uses the (timed) blocking API: a lease that reports to a collector when dropped
    pub struct Lease(pub Option<ActorRef<A>>);
    impl Drop for Lease {
        fn drop(&mut self) {
            if let Some(c) = self.0.take() {
                let _ = c.blocking_tell(Work(0, 0), Some(std::time::Duration::from_millis(500)));
            }
        }
    }
    impl Message<Lease> for A {
        type Reply = u8;
        async fn handle(&mut self, mut l: Lease, _: &ActorRef<Self>) -> u8 {
            l.0 = None;
            1
        }
    }
    /// parks the handler until a permit is released from outside
    pub struct Park(pub Arc<tokio::sync::Semaphore>);
    impl Message<Park> for A {
        type Reply = u64;
        async fn handle(&mut self, p: Park, _: &ActorRef<Self>) -> u64 {
            self.handled.fetch_add(1, Ordering::SeqCst);
            let _ = p.0.acquire().await;
            5
        }
    }
    impl Message<Work> for A {
        type Reply = u64;
        async fn handle(&mut self, w: Work, _: &ActorRef<Self>) -> u64 {
            self.handled.fetch_add(1, Ordering::SeqCst);
            if w.1 > 0 {
                tokio::time::sleep(std::time::Duration::from_millis(w.1)).await;
            }
            w.0
        }
    }
}

fn round_abort(seed: u64, hb: &Heartbeat, tot: &Mutex<Tot>, prop: &str) {
    use ab::*;
    use rsactor::{ActorControl, AskHandler, TellHandler};
    let mut r = Rng::new(seed);
    let rt = match r.below(3) {
        0 => tokio::runtime::Builder::new_current_thread().enable_time().build().unwrap(),
        1 => tokio::runtime::Builder::new_multi_thread().worker_threads(2).enable_time().build().unwrap(),
        _ => tokio::runtime::Builder::new_multi_thread().worker_threads(6).enable_time().build().unwrap(),
    };
    let situation = r.below(4); // 0 idle, 1 busy handler + queue, 2 on_run ticking, 3 still inside on_start
    let cap = 1 + r.below(3) as usize;
    let npend = 1 + r.below(4) as usize;
    let pre_yield = r.below(3);
    // variant: the actor lives on a runtime of its own which is shut down (its task is cancelled by the runtime, not by abort())
    let mut rt_a = if r.chance(35) { Some(tokio::runtime::Builder::new_multi_thread().worker_threads(1 + r.below(2) as usize).enable_time().build().unwrap()) } else { None };
    let ended_by = if rt_a.is_some() { "the runtime the actor was spawned on was shut down (shutdown_background)" } else { "the actor's JoinHandle was aborted" };
    let bucket0 = hb.now_bucket();
    let mut viol: Vec<(String, String)> = vec![];
    let mut inconclusive = None;
    let mut obl: Vec<&'static str> = vec![];
    rt.block_on(async {
        let handled = Arc::new(std::sync::atomic::AtomicU64::new(0));
        let (a, jh) = {
            let _g = rt_a.as_ref().map(|r| r.enter());
            rsactor::spawn_with_mailbox_capacity::<A>(Args { handled: handled.clone(), start_ms: if situation == 3 { 30 } else { 0 }, ticks: situation == 2 }, cap)
        };
        let weak = rsactor::ActorRef::downgrade(&a);
        let mut pend = vec![];
        if situation == 1 || situation == 3 {
            // one long handler, then askers and tellers that queue up (or park on the full mailbox) behind it
            let a2 = a.clone();
            pend.push(tokio::spawn(async move { a2.ask(Work(0, 30_000)).await.map(|_| ()) }));
            tokio::time::sleep(Duration::from_millis(3)).await;
            for k in 0..npend {
                let a2 = a.clone();
                let kind = r.below(4);
                pend.push(tokio::spawn(async move {
                    match kind {
                        0 => a2.ask(Work(k as u64, 0)).await.map(|_| ()),
                        1 => a2.ask_with_timeout(Work(k as u64, 0), Duration::from_secs(60)).await.map(|_| ()),
                        2 => {
                            let h: Box<dyn AskHandler<Work, u64>> = Box::new(a2.clone());
                            h.ask(Work(k as u64, 0)).await.map(|_| ())
                        }
                        _ => match a2.tell(Work(k as u64, 0)).await {
                            // a tell may be accepted (queued) - that is not a pending operation
                            Ok(()) => Err(rsactor::Error::Runtime { identity: a2.identity(), details: "accepted".into() }),
                            Err(e) => Err(e),
                        },
                    }
                }));
            }
            tokio::time::sleep(Duration::from_millis(3)).await;
        } else {
            // make sure the actor is up (situation 0/2)
            let _ = tokio::time::timeout(Duration::from_secs(10), a.ask(Work(7, 0))).await;
        }
        for _ in 0..pre_yield {
            tokio::task::yield_now().await;
        }
        match rt_a.take() {
            Some(ra) => ra.shutdown_background(),
            None => jh.abort(),
        }
        let mut jh = jh;
        let res = tokio::time::timeout(Duration::from_secs(10), &mut jh).await;
        let Ok(res) = res else {
            inconclusive = Some("the JoinHandle did not resolve within 10 s after abort / runtime shutdown".to_string());
            return;
        };
        let how = match &res {
            Ok(_) => "a normal result",
            Err(e) if e.is_cancelled() => "JoinError::Cancelled",
            Err(_) => "a panic",
        };
        // ---- the handle has resolved: from here on the actor is over
        let h0 = handled.load(Ordering::SeqCst);
        obl.push("C11.alive_false");
        let ctl: Box<dyn ActorControl> = Box::new(a.clone());
        let th: Box<dyn TellHandler<Work>> = Box::new(a.clone());
        let up = weak.upgrade();
        let mut alive = vec![];
        if a.is_alive() {
            alive.push("ActorRef");
        }
        if ctl.is_alive() {
            alive.push("ActorControl");
        }
        if th.as_control().is_alive() {
            alive.push("TellHandler::as_control");
        }
        if up.as_ref().map(|u| u.is_alive()).unwrap_or(false) {
            alive.push("upgraded ActorWeak");
        }
        if !alive.is_empty() {
            viol.push(("C11.alive_false".into(), format!("[abort] {ended_by} and its JoinHandle resolved with {how} (situation {situation}), yet is_alive() is still true on {:?}", alive)));
        }
        #[cfg(feature = "f_metrics")]
        {
            // metrics stay readable with their final values: every handler that was entered is counted, also the one that was
            // suspended at an await when the task was cancelled
            obl.push("C20.count");
            for (via, h) in [("the strong handle", Some(a.clone())), ("a weak-upgraded handle", weak.upgrade())] {
                if let Some(h) = h {
                    let m = h.metrics();
                    if m.message_count != h0 {
                        viol.push(("C20.count".into(), format!("[abort] {ended_by} (situation {situation}); {h0} handler(s) had been entered, message_count read through {via} afterwards is {}", m.message_count)));
                    }
                    if m.message_count != h.message_count() || m.max_processing_time != h.max_processing_time() {
                        viol.push(("C20.snapshot_agrees".into(), format!("[abort] snapshot {:?} disagrees with the accessors after the actor ended", m)));
                    }
                }
            }
        }
        obl.push("C11.send_after_end");
        let mut okd = vec![];
        match tokio::time::timeout(Duration::from_secs(10), a.tell(Work(100, 0))).await {
            Ok(Ok(())) => okd.push("tell -> Ok".to_string()),
            Ok(Err(_)) => {}
            Err(_) => okd.push("tell still pending after 10 s".to_string()),
        }
        match tokio::time::timeout(Duration::from_secs(10), a.ask(Work(101, 0))).await {
            Ok(Ok(v)) => okd.push(format!("ask -> Ok({v})")),
            Ok(Err(_)) => {}
            Err(_) => okd.push("ask still pending after 10 s".to_string()),
        }
        match tokio::time::timeout(Duration::from_secs(10), th.tell_with_timeout(Work(102, 0), Duration::from_millis(50))).await {
            Ok(Ok(())) => okd.push("erased tell_with_timeout -> Ok".to_string()),
            Ok(Err(_)) => {}
            Err(_) => okd.push("erased tell_with_timeout still pending after 10 s".to_string()),
        }
        if !okd.is_empty() {
            let clause = if okd.iter().any(|s| s.contains("pending")) { "C03.complete" } else { "C11.send_after_end" };
            viol.push((clause.into(), format!("[abort] {ended_by}; after its JoinHandle resolved with {how} (situation {situation}): {:?}", okd)));
        }
        // pending operations must all finish with an error
        obl.push("C03.complete");
        let mut still = 0;
        let mut okp = 0;
        for (i, p) in pend.into_iter().enumerate() {
            let mut p = p;
            match tokio::time::timeout(Duration::from_secs(10), &mut p).await {
                Ok(Ok(Ok(()))) => {
                    // the long handler cannot have produced a reply; a queued ask can only be answered if it was handled
                    if i == 0 {
                        okp += 1;
                    }
                }
                Ok(_) => {}
                Err(_) => {
                    still += 1;
                    p.abort();
                }
            }
        }
        if still > 0 {
            viol.push(("C03.complete".into(), format!("[abort] {ended_by}; {still} operation(s) pending on the actor at that moment (JoinHandle resolved with {how}, situation {situation}, capacity {cap}) were still waiting 10 s later")));
        }
        if okp > 0 {
            viol.push(("C03.integrity".into(), format!("[abort] an ask whose handler sleeps for 30 s returned Ok although {ended_by} (situation {situation})")));
        }
        tokio::time::sleep(Duration::from_millis(5)).await;
        let h1 = handled.load(Ordering::SeqCst);
        obl.push("C01.rejected");
        if h1 > h0 {
            viol.push(("C01.rejected".into(), format!("[abort] {} handler(s) were entered after {ended_by} and the JoinHandle had resolved with {how} (situation {situation})", h1 - h0)));
        }
        drop((ctl, th, up));
    });
    rt.shutdown_timeout(Duration::from_secs(2));
    let stalled = hb.max_late_since(bucket0) > STALL_US;
    let mut t = tot.lock().unwrap();
    t.rounds += 1;
    t.hashes.insert(mix(situation * 16 + cap as u64, (npend as u64) * 8 + pre_yield * 2 + ended_by.len() as u64 % 2));
    if let Some(m) = inconclusive {
        t.inconclusive.push(format!("abort round {seed}: {m}"));
        return;
    }
    if stalled && !viol.is_empty() {
        t.inconclusive.push(format!("abort round {seed}: machine stalled, {} finding(s) dropped", viol.len()));
        return;
    }
    for o in obl {
        *t.obl.entry(o).or_default() += 1;
    }
    for p in ["C11", "C03", "C01", "C20"] {
        *t.nontrivial.entry(p.into()).or_default() += 1;
    }
    for (c, m) in viol {
        if prop == "all" || c.starts_with(prop) {
            t.viol.push((c, m, seed, "abort".into()));
        }
    }
}

// ---------------------------------------------------------------------------------------------
// spawn storm (C11 id uniqueness under parallel spawns from several threads and runtimes)
// ---------------------------------------------------------------------------------------------
mod storm {
    use rsactor::{Actor, ActorRef};
    pub struct T1;
    pub struct T2(pub u8);
    pub struct T3;
    impl Actor for T1 {
        type Args = ();
        type Error = String;
        async fn on_start(_: (), _: &ActorRef<Self>) -> Result<Self, String> {
            Ok(T1)
        }
    }
    impl Actor for T2 {
        type Args = u8;
        type Error = std::convert::Infallible;
        async fn on_start(a: u8, _: &ActorRef<Self>) -> Result<Self, Self::Error> {
            Ok(T2(a))
        }
    }
    impl Actor for T3 {
        type Args = ();
        type Error = String;
        async fn on_start(_: (), _: &ActorRef<Self>) -> Result<Self, String> {
            Err("no".into())
        }
    }
}

fn spawn_storm(threads: usize, per_thread: usize, tot: &Mutex<Tot>) {
    use storm::*;
    let rts: Vec<tokio::runtime::Runtime> = (0..2)
        .map(|_| tokio::runtime::Builder::new_multi_thread().worker_threads(4).enable_time().build().unwrap())
        .collect();
    let barrier = Arc::new(std::sync::Barrier::new(threads));
    let all: Arc<Mutex<Vec<(u64, &'static str)>>> = Arc::new(Mutex::new(Vec::new()));
    let mut ths = vec![];
    for th in 0..threads {
        let h = rts[th % 2].handle().clone();
        let (barrier, all) = (barrier.clone(), all.clone());
        ths.push(std::thread::spawn(move || {
            let _g = h.enter();
            let mut local = Vec::with_capacity(per_thread);
            barrier.wait();
            for i in 0..per_thread {
                match (i + th) % 3 {
                    0 => {
                        let (r, _j) = rsactor::spawn::<T1>(());
                        let id = r.identity();
                        local.push((id.id, id.name()));
                    }
                    1 => {
                        let (r, _j) = rsactor::spawn_with_mailbox_capacity::<T2>(1, 1);
                        let id = r.identity();
                        local.push((id.id, id.name()));
                    }
                    _ => {
                        let (r, _j) = rsactor::spawn::<T3>(());
                        let id = r.identity();
                        local.push((id.id, id.name()));
                    }
                }
                if i % 64 == 0 {
                    barrier.wait();
                }
            }
            all.lock().unwrap().extend(local);
        }));
    }
    for t in ths {
        t.join().unwrap();
    }
    // sequential tail: an actor whose on_start fails (and whose handles the caller still holds) followed by a fresh spawn,
    // and alternating entry points - nothing about an id may ever be handed out twice
    {
        let mut local = vec![];
        let mut keep = vec![];
        rts[0].block_on(async {
            for k in 0..24 {
                let (r, j) = rsactor::spawn::<T3>(());
                let _ = tokio::time::timeout(Duration::from_secs(5), j).await;
                let id = r.identity();
                local.push((id.id, id.name()));
                keep.push(r.identity());
                if k % 2 == 0 {
                    let (r2, _j) = rsactor::spawn::<T1>(());
                    let id = r2.identity();
                    local.push((id.id, id.name()));
                } else {
                    let (r2, _j) = rsactor::spawn_with_mailbox_capacity::<T2>(1, 2);
                    let id = r2.identity();
                    local.push((id.id, id.name()));
                }
            }
        });
        all.lock().unwrap().extend(local);
    }
    let v = all.lock().unwrap();
    let set: BTreeSet<u64> = v.iter().map(|x| x.0).collect();
    let mut t = tot.lock().unwrap();
    t.rounds += 1;
    *t.obl.entry("C11.unique").or_default() += v.len() as u64;
    *t.nontrivial.entry("C11".to_string()).or_default() += 1;
    t.hashes.insert(v.len() as u64 ^ 0x51);
    t.hashes.insert(threads as u64 ^ 0x52);
    *t.extra.entry("spawn_storm_spawns".into()).or_default() += v.len() as u64;
    *t.extra.entry("spawn_storm_distinct_ids".into()).or_default() += set.len() as u64;
    if set.len() != v.len() {
        t.viol.push((
            "C11.unique".into(),
            format!("{} of {} actors spawned concurrently from {} threads share an id with another actor", v.len() - set.len(), v.len(), threads),
            threads as u64,
            "spawnstorm".into(),
        ));
    }
    if v.iter().any(|x| !(x.1.ends_with("T1") || x.1.ends_with("T2") || x.1.ends_with("T3"))) {
        t.viol.push(("C11.identity".into(), "identity type name does not name the actor type".into(), 0, "spawnstorm".into()));
    }
    if t.samples.len() < 3 {
        t.samples.push(
            JObj::new()
                .s("engine", "mt")
                .s("profile", "spawnstorm")
                .n("threads", threads as u64)
                .n("spawns", v.len() as u64)
                .n("distinct_ids", set.len() as u64)
                .build(),
        );
    }
    drop(t);
    drop(v);
    for rt in rts {
        rt.shutdown_background();
    }
}

// ---------------------------------------------------------------------------------------------
// tight death race (C03): askers hammer an actor that is ended at a random instant. No shared log on
// the hot path: every asker publishes its current call in its own slot.
// ---------------------------------------------------------------------------------------------
mod dr {
    use rsactor::{Actor, ActorRef, ActorWeak, Message};
    pub struct A {
        pub run_err_after: Option<u32>,
        pub polls: u32,
    }
    pub struct Ping(pub u64);
    pub struct Boom;
    impl Actor for A {
        type Args = Option<u32>;
        type Error = String;
        async fn on_start(a: Option<u32>, _: &ActorRef<Self>) -> Result<Self, String> {
            Ok(A { run_err_after: a, polls: 0 })
        }
        async fn on_run(&mut self, _: &ActorWeak<Self>) -> Result<bool, String> {
            match self.run_err_after {
                None => Ok(false),
                Some(k) => {
                    tokio::task::yield_now().await;
                    self.polls += 1;
                    if self.polls >= k {
                        Err("scripted on_run error".into())
                    } else {
                        Ok(true)
                    }
                }
            }
        }
    }
    impl Message<Ping> for A {
        type Reply = u64;
        async fn handle(&mut self, m: Ping, _: &ActorRef<Self>) -> u64 {
            m.0.wrapping_mul(3).wrapping_add(1)
        }
    }
    impl Message<Boom> for A {
        type Reply = ();
        async fn handle(&mut self, _: Boom, _: &ActorRef<Self>) {
            panic!("scripted handler panic (death race)");
        }
    }
    pub struct Slow(pub u64);
    impl Message<Slow> for A {
        type Reply = ();
        async fn handle(&mut self, m: Slow, _: &ActorRef<Self>) {
            tokio::time::sleep(std::time::Duration::from_millis(m.0)).await;
        }
    }
}

const SLOT_IDLE: u64 = 0;

async fn round_tight(seed: u64, hb: &Heartbeat, tot: &Mutex<Tot>) {
    use dr::*;
    let mut r = Rng::new(seed);
    let cap = 1 + r.below(3) as usize;
    let cause = r.below(5); // 0 kill, 1 stop, 2 handler panic, 3 on_run error, 4 kill after stop
    let run_err = if cause == 3 { Some(1 + r.below(40) as u32) } else { None };
    let (a, jh) = rsactor::spawn_with_mailbox_capacity::<A>(run_err, cap);
    let weak = ActorRef::downgrade(&a);
    let naskers = r.range(4, 8) as usize;
    let slots: Arc<Vec<AtomicU64>> = Arc::new((0..naskers).map(|_| AtomicU64::new(SLOT_IDLE)).collect());
    let oks = Arc::new(AtomicU64::new(0));
    let bad_reply = Arc::new(AtomicU64::new(0));
    let mut hs = vec![];
    let mut kinds = vec![];
    for i in 0..naskers {
        let kind = match r.below(20) {
            0..=6 => 0,
            7..=9 => 1,
            10..=12 => 2,
            13..=15 => 3,
            16..=18 => 4,
            _ => 5,
        };
        kinds.push(kind);
        let (a, slots, oks, bad) = (a.clone(), slots.clone(), oks.clone(), bad_reply.clone());
        let yields = r.chance(50);
        let fut_body = move |n: u64, v: u64| {
            if v != n.wrapping_mul(3).wrapping_add(1) {
                bad.fetch_add(1, Ordering::Relaxed);
            }
        };
        if kind >= 4 {
            hs.push(tokio::task::spawn_blocking(move || {
                let mut n = 1u64;
                loop {
                    slots[i].store(n, Ordering::SeqCst);
                    let res = if kind == 4 { a.blocking_ask(Ping(n), None) } else { a.blocking_ask(Ping(n), Some(Duration::from_secs(30))) };
                    match res {
                        Ok(v) => fut_body(n, v),
                        Err(_) => break,
                    }
                    n += 1;
                }
                slots[i].store(SLOT_IDLE, Ordering::SeqCst);
                oks.fetch_add(n - 1, Ordering::Relaxed);
            }));
        } else {
            hs.push(tokio::spawn(async move {
                let erased: Box<dyn AskHandler<Ping, u64>> = (&a).into();
                let mut n = 1u64;
                loop {
                    slots[i].store(n, Ordering::SeqCst);
                    let res = match kind {
                        0 => a.ask(Ping(n)).await,
                        1 => a.ask_with_timeout(Ping(n), Duration::from_secs(30)).await,
                        2 => erased.ask(Ping(n)).await,
                        _ => {
                            let _ = a.tell(Ping(n)).await;
                            a.ask(Ping(n)).await
                        }
                    };
                    match res {
                        Ok(v) => fut_body(n, v),
                        Err(_) => break,
                    }
                    n += 1;
                    if yields {
                        tokio::task::yield_now().await;
                    }
                }
                slots[i].store(SLOT_IDLE, Ordering::SeqCst);
                oks.fetch_add(n - 1, Ordering::Relaxed);
            }));
        }
    }
    spin(r.below(4000));
    if r.chance(50) {
        tokio::task::yield_now().await;
    }
    if r.chance(10) {
        tokio::time::sleep(Duration::from_micros(r.below(300))).await;
    }
    match cause {
        0 => {
            let _ = a.kill();
        }
        1 => {
            let _ = a.stop().await;
        }
        2 => {
            let _ = a.tell(Boom).await;
        }
        3 => {}
        _ => {
            let _ = a.stop().await;
            let _ = a.kill();
        }
    }
    drop(a);
    let bucket0 = hb.now_bucket();
    let mut jh = jh;
    let actor_done = tokio::time::timeout(Duration::from_secs(10), &mut jh).await.is_ok();
    let mut hung = vec![];
    for (i, h) in hs.into_iter().enumerate() {
        let mut h = h;
        if tokio::time::timeout(Duration::from_secs(10), &mut h).await.is_err() {
            hung.push((i, kinds[i], slots[i].load(Ordering::SeqCst)));
            h.abort();
        }
    }
    let stalled = hb.max_late_since(bucket0) > STALL_US;
    {
        let mut t = tot.lock().unwrap();
        t.rounds += 1;
        *t.obl.entry("C03.complete").or_default() += naskers as u64;
        *t.obl.entry("C03.integrity").or_default() += oks.load(Ordering::Relaxed);
        *t.nontrivial.entry("C03".into()).or_default() += 1;
        t.hashes.insert(mix(cause * 1000 + cap as u64 * 100 + naskers as u64, kinds.iter().fold(0u64, |h, k| h * 7 + k)));
        if bad_reply.load(Ordering::Relaxed) > 0 {
            t.viol.push(("C03.integrity".into(), format!("{} replies did not belong to their request (death-race round, cause {cause})", bad_reply.load(Ordering::Relaxed)), seed, "tightrace".into()));
        }
        if (!hung.is_empty() || !actor_done) && stalled {
            t.inconclusive.push(format!("tightrace round {seed}: watchdog fired while the machine was stalled"));
            return;
        }
        if !actor_done {
            t.viol.push(("C07.resolves".into(), format!("actor did not end within 10 s after cause {cause} (0 kill,1 stop,2 handler panic,3 on_run error,4 stop+kill)"), seed, "tightrace".into()));
        }
    }
    if !hung.is_empty() {
        tokio::time::sleep(Duration::from_millis(50)).await;
        let stranded = weak.upgrade().is_some();
        let mut t = tot.lock().unwrap();
        let names = ["ask", "ask_with_timeout(30s)", "erased ask", "tell+ask", "blocking_ask(None)", "blocking_ask(Some 30s)"];
        for (i, k, n) in hung {
            t.viol.push((
                "C03.complete".into(),
                format!("[pending-ask] asker {i} ({}) is still waiting for request #{n} 10 s after the actor's JoinHandle resolved (cause {cause}: 0 kill,1 stop,2 handler panic,3 on_run error,4 stop+kill; capacity {cap}); after aborting the askers and dropping every handle ActorWeak::upgrade().is_some() = {stranded}", names[k as usize]),
                seed,
                "tightrace".into(),
            ));
        }
    }
}

// ---------------------------------------------------------------------------------------------
pub fn cmd_mt(a: &Args) -> i32 {
    let prop = a.str("prop", "all");
    let profiles: Vec<String> = a.str("profiles", "general").split(',').map(|s| s.to_string()).collect();
    let base = a.u64("seed", 1);
    let secs = a.u64("secs", 5);
    let workers_opt = a.u64("workers", 0);
    let lanes = a.u64("lanes", 8) as usize;
    let fp = a.u64("failpoints", 0);
    install_panic_hook();
    install_subscriber();
    install_failpoints(fp);
    let hb = Arc::new(Heartbeat::start());
    let tot = Arc::new(Mutex::new(Tot::default()));
    {
        // last resort: every wait in the profiles is bounded, but a blocked runtime shutdown or thread join must not hang the check
        let (tot, limit) = (tot.clone(), secs + 180);
        std::thread::spawn(move || {
            std::thread::sleep(Duration::from_secs(limit));
            let t = tot.lock().unwrap_or_else(|e| e.into_inner());
            let vj: Vec<String> = t
                .viol
                .iter()
                .map(|(c, m, s, p)| JObj::new().s("prop", &c[..3]).s("clause", c).s("msg", m).s("profile", p).n("seed", *s).n("pert", 0).b("erased", false).build())
                .collect();
            let oj: Vec<String> = t.obl.iter().map(|(k, v)| format!("{}:{}", json_str(k), v)).collect();
            println!(
                "{}",
                JObj::new()
                    .s("engine", "mt")
                    .s("features", &crate::features_label())
                    .n("scenarios", t.rounds)
                    .n("events", t.events)
                    .raw("obl", &format!("{{{}}}", oj.join(",")))
                    .raw("nontrivial", "{}")
                    .raw("hashes", "[]")
                    .raw("viol", &jarr(&vj))
                    .raw("samples", "[]")
                    .raw("inconclusive", &jarr_str(&[format!("the MT process did not finish within {limit} s (process-level watchdog)")]))
                    .raw("extra", "{}")
                    .build()
            );
            std::process::exit(if vj.is_empty() { 2 } else { 1 });
        });
    }
    #[cfg(feature = "f_testutils")]
    let dl0 = rsactor::dead_letter_count();
    let t0 = Instant::now();
    let tainted = Arc::new(AtomicBool::new(false));
    let per_profile = Duration::from_secs_f64(secs as f64 / profiles.len() as f64);
    let mut worker_counts = vec![];
    for (pi, prof) in profiles.iter().enumerate() {
        let tp = Instant::now();
        match prof.as_str() {
            "general" | "deathrace" | "readers" => {
                // rotate worker counts: under- and over-subscription
                let wc: Vec<usize> = if workers_opt > 0 { vec![workers_opt as usize] } else { vec![4, 16, 32] };
                let slice = per_profile / wc.len() as u32;
                for (wi, w) in wc.iter().enumerate() {
                    worker_counts.push(*w);
                    let rt = tokio::runtime::Builder::new_multi_thread()
                        .worker_threads(*w)
                        .max_blocking_threads(512)
                        .enable_time()
                        .build()
                        .unwrap();
                    let tw = Instant::now();
                    rt.block_on(async {
                        let mut hs = vec![];
                        for lane in 0..lanes {
                            let (tot, hb, tainted, prop, prof) = (tot.clone(), hb.clone(), tainted.clone(), prop.clone(), prof.clone());
                            hs.push(tokio::spawn(async move {
                                let mut n = 0u64;
                                while tw.elapsed() < slice {
                                    n += 1;
                                    let seed = mix(base, ((pi as u64) << 56) ^ ((wi as u64) << 48) ^ ((lane as u64) << 40) ^ n);
                                    let out = round_general(seed, &hb, prof == "readers" || (prof == "general" && n % 4 == 0), prof == "deathrace").await;
                                    absorb(&tot, &prop, &prof, seed, &out, &tainted);
                                    if tot.lock().unwrap().viol.len() > 20 {
                                        break;
                                    }
                                }
                            }));
                        }
                        for h in hs {
                            let _ = h.await;
                        }
                    });
                    rt.shutdown_timeout(Duration::from_secs(2));
                }
            }
            "tightrace" => {
                let wc: Vec<usize> = if workers_opt > 0 { vec![workers_opt as usize] } else { vec![16, 32, 8] };
                let slice = per_profile / wc.len() as u32;
                for (wi, w) in wc.iter().enumerate() {
                    worker_counts.push(*w);
                    let rt = tokio::runtime::Builder::new_multi_thread().worker_threads(*w).max_blocking_threads(512).enable_time().build().unwrap();
                    let tw = Instant::now();
                    let nl = (*w / 6).max(2);
                    rt.block_on(async {
                        let mut hs = vec![];
                        for lane in 0..nl {
                            let (tot, hb) = (tot.clone(), hb.clone());
                            hs.push(tokio::spawn(async move {
                                let mut n = 0u64;
                                while tw.elapsed() < slice {
                                    n += 1;
                                    let seed = mix(base, ((pi as u64) << 56) ^ ((wi as u64) << 48) ^ ((lane as u64) << 40) ^ n);
                                    round_tight(seed, &hb, &tot).await;
                                    if !tot.lock().unwrap().viol.is_empty() {
                                        break;
                                    }
                                }
                            }));
                        }
                        for h in hs {
                            let _ = h.await;
                        }
                    });
                    rt.shutdown_timeout(Duration::from_secs(2));
                }
            }
            "slow" => {
                // handlers that take longer than one second of wall time (metrics must not lose whole seconds)
                // 4.4 s exceeds what a u32 holds in nanoseconds (4.29 s): wrap-arounds in duration arithmetic show as a lost maximum
                let durs: Vec<u64> = if secs >= 20 { vec![1_050_000, 2_300_000, 30_000, 999_000, 4_400_000] } else { vec![1_050_000, 30_000, 4_400_000] };
                let rt = tokio::runtime::Builder::new_multi_thread().worker_threads(durs.len() + 1).enable_time().build().unwrap();
                rt.block_on(async {
                    let mut hs = vec![];
                    for (k, d) in durs.iter().enumerate() {
                        let (tot, hb, tainted, prop, d) = (tot.clone(), hb.clone(), tainted.clone(), prop.clone(), *d);
                        hs.push(tokio::spawn(async move {
                            let seed = mix(base, 0x510 + k as u64);
                            let sh = Shared::new(1, 1, false, false, seed);
                            let spec = ActorSpec { cap: Some(4), start: HookScript::default(), run: vec![], stop: HookScript::default(), run_err_when_handled: None, in_peers: false };
                            let (rf, jh) = spawn_sa(&sh, 0, &spec);
                            sh.model_add(0, 1, "spawner");
                            let w = tokio::spawn(watch(sh.clone(), 0, jh));
                            let h = H::D(rf.clone());
                            let bucket0 = hb.now_bucket();
                            send_via(&sh, Ctx::Client(0), 0, &h, SendKind::Tell, MTy::U, Body { uid: uid(), flags: 0, steps: vec![Step::Busy(500)] }).await;
                            send_via(&sh, Ctx::Client(0), 0, &h, SendKind::Ask, MTy::U, Body { uid: uid(), flags: 0, steps: vec![Step::Busy(d)] }).await;
                            send_via(&sh, Ctx::Client(0), 0, &h, SendKind::Ask, MTy::S, Body { uid: uid(), flags: 0, steps: vec![Step::Busy(200)] }).await;
                            stop_via(&sh, Ctx::Main, 0, &h).await;
                            let _ = w.await;
                            #[cfg(feature = "f_metrics")]
                            crate::sim::metrics_event(&sh, 0, &rf, "survivor-strong");
                            drop(h);
                            drop(rf);
                            sh.model_add(0, -1, "drop");
                            let ids = sh.ids.lock().unwrap().clone();
                            let out = RoundOut { log: sh.log.snapshot(), ids: ids.clone(), caps: vec![4], hung_clients: 0, hung_actors: 0, stalled: hb.max_late_since(bucket0) > STALL_US };
                            for id in ids.iter() {
                                reg_remove(*id);
                            }
                            absorb(&tot, &prop, "slow", seed, &out, &tainted);
                        }));
                    }
                    for h in hs {
                        let _ = h.await;
                    }
                });
                rt.shutdown_timeout(Duration::from_secs(2));
            }
            #[cfg(feature = "f_deadlock")]
            "mutualask" => {
                let rt = tokio::runtime::Builder::new_multi_thread().worker_threads(8).enable_time().build().unwrap();
                rt.block_on(async {
                    let mut hs = vec![];
                    for lane in 0..3u64 {
                        let (tot, hb, prop) = (tot.clone(), hb.clone(), prop.clone());
                        hs.push(tokio::spawn(async move {
                            let mut n = 0u64;
                            while tp.elapsed() < per_profile {
                                n += 1;
                                round_mutual(mix(base, ((pi as u64) << 56) ^ (lane << 40) ^ n), &hb, &tot, &prop).await;
                                if !tot.lock().unwrap().viol.is_empty() {
                                    break;
                                }
                            }
                        }));
                    }
                    for h in hs {
                        let _ = h.await;
                    }
                });
                rt.shutdown_timeout(Duration::from_secs(2));
            }
            "hogged" => {
                let mut n = 0u64;
                while tp.elapsed() < per_profile {
                    n += 1;
                    round_hogged(mix(base, ((pi as u64) << 56) ^ n), &hb, &tot, &prop);
                    if tot.lock().unwrap().viol.len() > 5 {
                        break;
                    }
                }
            }
            "reentrant" => {
                let mut n = 0u64;
                while tp.elapsed() < per_profile {
                    n += 1;
                    round_reentrant(mix(base, ((pi as u64) << 56) ^ n), &tot, &prop);
                    if !tot.lock().unwrap().viol.is_empty() {
                        break;
                    }
                }
            }
            "dropspin" => {
                let mut n = 0u64;
                while tp.elapsed() < per_profile {
                    n += 1;
                    round_dropspin(mix(base, ((pi as u64) << 56) ^ n), &hb, &tot, &prop);
                    if tot.lock().unwrap().viol.len() > 5 {
                        break;
                    }
                }
            }
            #[cfg(feature = "f_metrics")]
            "metricsrace" => {
                let mut n = 0u64;
                while tp.elapsed() < per_profile {
                    n += 1;
                    round_metricsrace(mix(base, ((pi as u64) << 56) ^ n), &hb, &tot, &prop);
                    if tot.lock().unwrap().viol.len() > 5 {
                        break;
                    }
                }
            }
            "undriven" => {
                let mut n = 0u64;
                while tp.elapsed() < per_profile {
                    n += 1;
                    round_undriven(mix(base, ((pi as u64) << 56) ^ n), &hb, &tot, &prop);
                    if !tot.lock().unwrap().viol.is_empty() {
                        break;
                    }
                }
            }
            #[cfg(all(feature = "f_deadlock", rsactor_verif))]
            "dlrace" => {
                let mut n = 0u64;
                while tp.elapsed() < per_profile {
                    n += 1;
                    round_dlrace(mix(base, ((pi as u64) << 56) ^ n), &hb, &tot, &prop);
                    if tot.lock().unwrap().viol.len() > 3 {
                        break;
                    }
                }
            }
            "dropsend" => {
                let mut n = 0u64;
                while tp.elapsed() < per_profile {
                    n += 1;
                    round_dropsend(mix(base, ((pi as u64) << 56) ^ n), &hb, &tot, &prop);
                    if !tot.lock().unwrap().viol.is_empty() {
                        break;
                    }
                }
            }
            "poolfull" => {
                let mut n = 0u64;
                while tp.elapsed() < per_profile {
                    n += 1;
                    round_poolfull(mix(base, ((pi as u64) << 56) ^ n), &hb, &tot, &prop);
                    if tot.lock().unwrap().viol.len() > 3 {
                        break;
                    }
                }
            }
            "blockpair" => {
                let mut n = 0u64;
                while tp.elapsed() < per_profile {
                    n += 1;
                    round_blockpair(mix(base, ((pi as u64) << 56) ^ n), &hb, &tot, &prop);
                    if tot.lock().unwrap().viol.len() > 3 {
                        break;
                    }
                }
            }
            "killstorm" => {
                let mut n = 0u64;
                while tp.elapsed() < per_profile {
                    n += 1;
                    round_killstorm(mix(base, ((pi as u64) << 56) ^ n), &hb, &tot, &prop);
                    if tot.lock().unwrap().viol.len() > 3 {
                        break;
                    }
                }
            }
            "nest" => {
                let mut n = 0u64;
                while tp.elapsed() < per_profile {
                    n += 1;
                    round_nest(mix(base, ((pi as u64) << 56) ^ n), &hb, &tot, &prop);
                    if tot.lock().unwrap().viol.len() > 3 {
                        break;
                    }
                }
            }
            "lastslot" => {
                let mut n = 0u64;
                while tp.elapsed() < per_profile {
                    n += 1;
                    round_lastslot(mix(base, ((pi as u64) << 56) ^ n), &hb, &tot, &prop);
                    if tot.lock().unwrap().viol.len() > 3 {
                        break;
                    }
                }
            }
            "hookblocking" => {
                let mut n = 0u64;
                while tp.elapsed() < per_profile {
                    n += 1;
                    round_hookblocking(mix(base, ((pi as u64) << 56) ^ n), &hb, &tot, &prop);
                    if tot.lock().unwrap().viol.len() > 3 {
                        break;
                    }
                }
            }
            "bigmsg" => {
                let mut n = 0u64;
                while tp.elapsed() < per_profile && n < 50 {
                    n += 1;
                    round_bigmsg(mix(base, ((pi as u64) << 56) ^ n), &tot, &prop);
                    if !tot.lock().unwrap().viol.is_empty() {
                        break;
                    }
                }
            }
            "abort" => {
                let mut n = 0u64;
                while tp.elapsed() < per_profile {
                    n += 1;
                    round_abort(mix(base, ((pi as u64) << 56) ^ n), &hb, &tot, &prop);
                    if tot.lock().unwrap().viol.len() > 5 {
                        break;
                    }
                }
            }
            "notime" => {
                let mut n = 0u64;
                while tp.elapsed() < per_profile {
                    n += 1;
                    round_notime(mix(base, ((pi as u64) << 56) ^ n), &tot, &prop);
                    if tot.lock().unwrap().viol.len() > 5 {
                        break;
                    }
                }
            }
            "starve" => {
                let mut n = 0u64;
                while tp.elapsed() < per_profile {
                    n += 1;
                    round_starve(mix(base, ((pi as u64) << 56) ^ n), &hb, &tot, &prop);
                    if !tot.lock().unwrap().viol.is_empty() {
                        break;
                    }
                }
            }
            "blocking" => {
                let rt = tokio::runtime::Builder::new_multi_thread().worker_threads(8).max_blocking_threads(256).enable_time().build().unwrap();
                let mut n = 0u64;
                while tp.elapsed() < per_profile {
                    n += 1;
                    let seed = mix(base, ((pi as u64) << 56) ^ n);
                    round_blocking(&rt, seed, &hb, &tot, &prop);
                    if tot.lock().unwrap().viol.len() > 20 {
                        break;
                    }
                }
                rt.shutdown_timeout(Duration::from_secs(2));
            }
            "spawnstorm" => {
                let per = a.u64("spawns", 20000) as usize;
                let mut n = 0;
                while n == 0 || tp.elapsed() < per_profile {
                    n += 1;
                    spawn_storm(16, per / 16, &tot);
                    spawn_storm(3, per / 16, &tot);
                    if tot.lock().unwrap().viol.len() > 5 {
                        break;
                    }
                }
            }
            other => {
                eprintln!("unknown mt profile {other}");
                return 2;
            }
        }
    }
    // process-wide dead-letter counter: failures observed == counter delta (only if nothing was stranded/aborted)
    let mut t = tot.lock().unwrap();
    #[cfg(feature = "f_testutils")]
    {
        let d = rsactor::dead_letter_count() - dl0;
        if !tainted.load(Ordering::Relaxed) && profiles.iter().all(|p| p != "spawnstorm" && p != "tightrace" && p != "starve" && p != "mutualask" && p != "abort" && p != "reentrant" && p != "dropspin" && p != "metricsrace" && p != "undriven" && p != "dlrace" && p != "dropsend" && p != "lastslot" && p != "hookblocking" && p != "bigmsg" && p != "nest" && p != "killstorm" && p != "blockpair" && p != "poolfull") {
            *t.obl.entry("C13.counter").or_default() += 1;
            t.extra.insert("dead_letter_count_delta".into(), d);
            let fl = t.failures;
            t.extra.insert("failed_deliveries".into(), fl);
            if d != t.failures && (prop == "all" || prop == "C13" || prop == "C17") {
                let f = t.failures;
                t.viol.push(("C13.counter".into(), format!("dead_letter_count() advanced by {d} during the run but {f} deliveries failed (concurrent failing senders)"), base, "process".into()));
            }
        }
    }
    let unexpected: Vec<String> = PANICS.lock().unwrap().iter().take(5).map(|(t, m)| format!("{t}: {m}")).collect();
    if !unexpected.is_empty() && (prop == "C17" || prop == "all") {
        t.viol.push(("C17.no_panic".into(), format!("unexpected panic(s) during the run: {:?}", unexpected), base, "process".into()));
    }
    let oj: Vec<String> = t.obl.iter().map(|(k, v)| format!("{}:{}", json_str(k), v)).collect();
    let nj: Vec<String> = t.nontrivial.iter().map(|(k, v)| format!("{}:{}", json_str(k), v)).collect();
    let vj: Vec<String> = t
        .viol
        .iter()
        .map(|(c, m, s, p)| JObj::new().s("prop", &c[..3]).s("clause", c).s("msg", m).s("profile", p).n("seed", *s).n("pert", 0).b("erased", false).build())
        .collect();
    let hj: Vec<String> = t.hashes.iter().map(|h| h.to_string()).collect();
    let ej: Vec<String> = t.extra.iter().map(|(k, v)| format!("{}:{}", json_str(k), v)).collect();
    let mut extra = ej;
    extra.push(format!("\"heartbeat_max_late_us\":{}", hb.overall()));
    extra.push(format!("\"failpoint_hits\":{}", FP_HITS.load(Ordering::Relaxed)));
    extra.push(format!("\"failpoint_delays\":{}", FP_DELAYS.load(Ordering::Relaxed)));
    extra.push(format!("\"worker_counts\":{}", json_str(&format!("{:?}", worker_counts))));
    println!(
        "{}",
        JObj::new()
            .s("engine", "mt")
            .s("features", &crate::features_label())
            .n("scenarios", t.rounds)
            .n("events", t.events)
            .raw("obl", &format!("{{{}}}", oj.join(",")))
            .raw("nontrivial", &format!("{{{}}}", nj.join(",")))
            .raw("hashes", &jarr(&hj))
            .raw("viol", &jarr(&vj))
            .raw("samples", &jarr(&t.samples))
            .raw("inconclusive", &jarr_str(&t.inconclusive.iter().take(5).cloned().collect::<Vec<_>>()))
            .raw("extra", &format!("{{{}}}", extra.join(",")))
            .f("wall_s", t0.elapsed().as_secs_f64())
            .build()
    );
    if t.viol.is_empty() {
        0
    } else {
        1
    }
}
