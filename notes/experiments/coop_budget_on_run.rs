// E1: sim feasibility + E3 coop budget
use rsactor::{spawn_with_mailbox_capacity, Actor, ActorRef, ActorWeak, Message};
use std::sync::{Arc, Mutex};
use std::time::Duration;

#[derive(Clone, Default)]
struct Log(Arc<Mutex<Vec<String>>>);
impl Log { fn p(&self, s: String) { self.0.lock().unwrap().push(s); } }

struct A { log: Log, handled: usize, runs: usize }
struct M(usize);
impl Actor for A {
    type Args = Log; type Error = anyhow::Error;
    async fn on_start(log: Log, _: &ActorRef<Self>) -> Result<Self, Self::Error> { log.p("start".into()); Ok(A{log, handled:0, runs:0}) }
    async fn on_run(&mut self, _: &ActorWeak<Self>) -> Result<bool, Self::Error> {
        self.runs += 1;
        self.log.p(format!("on_run body #{} handled={}", self.runs, self.handled));
        // a non-tokio-coop await point
        futures::future::ready(()).await;
        tokio::task::yield_now().await;
        self.log.p(format!("on_run after yield #{} handled={}", self.runs, self.handled));
        if self.runs > 3 { return Ok(false); }
        Ok(true)
    }
    async fn on_stop(&mut self, _: &ActorWeak<Self>, k: bool) -> Result<(), Self::Error> { self.log.p(format!("stop {k} handled={}", self.handled)); Ok(()) }
}
impl Message<M> for A { type Reply = usize; async fn handle(&mut self, m: M, _: &ActorRef<Self>) -> usize { self.handled += 1; m.0 } }

fn main() {
    let rt = tokio::runtime::Builder::new_current_thread().enable_time().start_paused(true).build().unwrap();
    let log = Log::default();
    let l2 = log.clone();
    rt.block_on(async move {
        let t0 = tokio::time::Instant::now();
        let (r, jh) = spawn_with_mailbox_capacity::<A>(l2.clone(), 512);
        for i in 0..300 { r.tell(M(i)).await.unwrap(); }
        l2.p("sent 300".into());
        tokio::time::sleep(Duration::from_secs(3600)).await;
        l2.p(format!("quiescent at {:?}", t0.elapsed()));
        r.stop().await.unwrap();
        let res = jh.await.unwrap();
        l2.p(format!("completed={}", res.is_completed()));
    });
    for l in log.0.lock().unwrap().iter() { println!("{l}"); }
}
