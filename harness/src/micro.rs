use crate::util::Args;
pub fn cmd_micro(_a: &Args) -> i32 {
    eprintln!("micro: not implemented yet");
    2
}
