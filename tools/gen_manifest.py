#!/usr/bin/env python3
"""Regenerates MANIFEST.json from the table below (kept in one place so it stays consistent)."""
import json, os, sys
ROOT = os.path.dirname(os.path.dirname(os.path.abspath(__file__)))

CLAIMED = {
 # id: (engine, technique, level text, note)
 "C01": ("sim+mt", "trace monitor over client-boundary/handler events (unique message ids): at-most-once, rejected-never, accepted-before-stop handled before on_stop, handled as a whole (a handler that was entered finishes before the actor goes on); real-thread supervision rounds (child spawned inside hooks and restarted from the state in its ActorResult) with state conservation across incarnations",
         "Exploration: held on the recorded executions (tens of thousands of seeded single-thread paused-clock scenarios per run across two feature builds, plus real-thread rounds); not a proof over all schedules.",
         "Trusts the harness's scripted actor and the oracle in harness/src/check.rs; SIM explores schedules reachable through yields/timers on one thread, MT whatever the OS produces."),
 "C02": ("sim+mt", "trace monitor: real-time precedence of sends (CallEnd before CallStart) must be preserved by handler entries; stop() as an in-band marker",
         "Exploration over seeded scenarios incl. capacity-1 mailboxes with parked senders and mixed tell/ask/timeout/erased variants.", "As C01."),
 "C03": ("sim+mt", "reply-integrity monitor (reply is a function of request id and handling sequence) + quiescence completeness (no open call at the end of a virtual-time-quiescent history) + real-thread death-race hang monitor; further real-thread rounds: actor ended by JoinHandle::abort() or by shutdown of its runtime, runtimes without a time driver, a tracing subscriber that re-enters rsactor from the dead-letter path, actors on a runtime that is no longer driven once their JoinHandle resolved, two unrelated timed blocking calls from two threads at once, requests forwarded parent -> child under restarts, a caller runtime whose blocking pool is exactly full of blocking callers (asks queued at an actor that is then killed)",
         "Exploration; liveness restated as quiescence in virtual time (SIM) and bounded progress with heartbeat guard (MT).", "As C01; MT bound 10 s after the actor's JoinHandle resolved."),
 "C04": ("sim+mt", "per-actor hook-trace automaton (on_start once, no overlap, on_stop at most once and last, killed flag iff kill consumed); real-thread rounds dropping the last references from other threads while on_run spins",
         "Exploration over lifecycle/kill/fault profiles: every cause at every phase, hook outcomes ok/err/panic.", "As C01."),
 "C05": ("sim+laws+mt", "JoinHandle output compared with the same run's hook trace (variant, phase, killed, error tag, actor journal); exhaustive accessor laws over all ActorResult shapes",
         "Exploration + exhaustive enumeration of the finite ActorResult shape space for the accessor laws.", "As C01."),
 "C06": ("sim+mt", "trace monitor: kill() returns in the step it was called; at most one handler entry after kill returned; on_stop(killed=true) next, once and to completion whatever further kill() calls arrive; leftovers never handled; real-thread rounds with several OS threads inside kill() at the same instant on actors of their own; a kill that finds the actor between hooks takes effect in that virtual instant (also when a parked sender holds a reserved slot it has not noticed)",
         "Exploration with pre-loaded mailboxes behind gated handlers, kill at every phase, self-kill from hooks.", "As C01."),
 "C07": ("sim+mt", "reference-model monitor at quiescent instants (harness counts its strong handles; weak ones never count) + probe asks + stop-is-final clause (nothing sent after stop() returned is handled); real-thread rounds dropping the last references from other threads while on_run spins",
         "Exploration over clone/drop/downgrade/upgrade/erased-conversion histories; 'ends' decided at virtual-time quiescence.", "As C01."),
 "C08": ("sim", "poll-level monitor of on_run (every poll, completion and cancellation is an event): no poll while an accepted tell waits or a kill is pending; Ok(false) final; Ok(true) re-run by next quiescence, and an enabled on_run restarted at EVERY quiescent instant at which the actor is idle (stop attempts that were given up before their marker was queued request nothing); Err -> on_stop(false); hooks that deliberately use up tokio's cooperative budget so that forced yields fall at arbitrary places",
         "Exploration over on_run scripts x arrival patterns x capacities.", "As C01."),
 "C09": ("sim+probe+mt", "occupancy prefix monitor from boundary events (accepted tells/stop markers minus taken) + quiescent 'no idle wait' check + fresh-process probes of the default-capacity configuration (racing, cross-thread and sequential: first value = built-in default, same value twice, capacities of 70 001)",
         "Exploration; occupancy is exact for tell-only traffic in SIM, a sound lower bound otherwise.", "As C01."),
 "C10": ("sim+mt", "virtual-time monitor: Timeout never before the deadline and at most one timer tick after it, never when the reply/failure instant precedes the deadline; Ok returns at the reply instant; other failures at their own instant; real-thread rounds: timed blocking asks from inside handlers, and a timed blocking call timing out at its own deadline while another thread's slow timed blocking call is pending, after a streak of ~100 failed timed blocking calls, and from a blocking pool that is exactly full",
         "Exploration over timeout x completion-time x mailbox-state grid in virtual time (1 ms timer granularity tolerated; exact ties accept both outcomes).", "As C01; tokio's 1 ms timer wheel."),
 "C11": ("sim+mt", "identity/liveness/upgrade probes through every handle kind compared with the spawn's identity and the reference model; process-wide id uniqueness incl. parallel spawn storm; liveness and sends after the JoinHandle resolved by abort() / runtime shutdown; a queued ask whose caller is gone still counts as a queued message for upgrade(); ids and dead handles across supervised restarts",
         "Exploration.", "As C01."),
 "C12": ("sim", "fault enumeration: one injected panic/error per scenario (hook kind x k-th invocation x traffic position) in 3-5 actor systems; every other monitor must hold for the survivors; global state checked (ids, dead-letter counter, wait-for graph lock)",
         "Fault enumeration by seeded sampling of (hook, k, position); not exhaustive.", "As C01."),
 "C13": ("sim+mt", "multiset equality between dead-letter tracing events (captured by an in-process Subscriber) and failed client results per (actor, message type, family, reason); dead_letter_count() delta per scenario",
         "Exploration.", "As C01; cancelled/unfinished calls make the affected key inconclusive, not violated."),
 "C14": ("sim+mt", "wait-for oracle over in-actor ask events: an ask that closes a cycle of unanswered in-flight asks must panic with 'Deadlock detected' naming the cycle; nothing pending at quiescence",
         "Exploration over cyclic topologies, cycle length 1-5, edges from every hook, ask/ask_with_timeout/ask_join/erased; simultaneous mutual asks on real threads.", "Requires the deadlock-detection feature build; concurrent asks from one hook are never generated (documented limitation)."),
 "C15": ("sim+mt", "same oracle, soundness side: no deadlock panic unless a chain of unanswered asks exists (grey edges: timed out/dead callee not yet observed); drop witnesses on the scripted messages make the destruction of a queued request an event (a request that was thrown away contributes no edge); wait-for graph snapshot (hook H1) equals in-flight in-actor asks at quiescent instants and is empty at the end; real-thread lock-contention rounds (in-actor asks ending by timeout next to answered ones on up to 16 workers) with the same two checks",
         "Exploration.", "Uses the cfg(rsactor_verif) wait_for_snapshot hook."),
 "C16": ("sim-diff", "differential oracle: each scenario executed with direct references and again with every operation routed through randomly derived trait objects; canonical traces must be identical; all views of one actor agree on identity/is_alive",
         "Exploration (exact trace equality per scenario).", "As C01."),
 "C17": ("mt", "real-thread blocking-API monitor: std threads / spawn_blocking / runtime workers call blocking_tell/ask (with and without timeout, deprecated aliases, erased forwarders; timeouts from zero and sub-millisecond to Duration::MAX; untimed calls from runtime-entered threads) against live, gated-full, dying and dead actors; the MT forms of the delivery/order/integrity/dead-letter oracles plus wall-clock deadline checks guarded by a heartbeat; callers attached to runtimes whose workers are all held synchronously or that have no time driver",
         "Exploration on real threads; deadlines restated as bounded progress (timeout + 2 s) under a heartbeat guard; 'never early' is exact (monotonic clock).", "As C01; wall-clock bounds are evaluated only while the heartbeat shows the machine was not stalled (max lateness < 250 ms)."),
 "C18": ("featdiff", "differential oracle across feature builds: harness binaries built against rsactor with different subsets of {tracing, metrics, test-utils, deadlock-detection} run identical seeded cycle-free scenarios; per-scenario canonical trace hashes must equal the default-feature build's; for real-thread workloads (runtimes without a time driver) equal verdict of all trace monitors on default vs all features",
         "Exploration (exact trace equality per scenario and feature set; quick: default, all four, one seed-chosen subset; thorough: all 16 subsets).", "SIM determinism (single thread, virtual clock) makes equality exact; metric values and wall-clock measurements are not part of the trace."),
 "C19": ("gen+sim", "generated-program oracle: grammar-based corpus of actors/handlers compiled against /repo and executed through ask and tell under a capturing tracing Subscriber; expectations come from the documented decision table; negative programs must fail to compile, positive controls must compile; on_tell_result exactly-once-after-tell checked on SIM traces",
         "Exploration over generated programs (translation-validation flavour: each handler's Reply type is checked at compile time, its value against a direct method call).", "Expectation table transcribed from docs/tell_error_logging.md and the property statement, not from the macro source."),
 "C20": ("sim+mt", "metrics samples at quiescent instants compared with handler-entry counts from the trace; monotonicity; avg<=max; max >= self-measured handler time; snapshot==accessors; post-mortem reads; final values after rounds in which reader threads spin on the metrics API while the last handlers finish",
         "Exploration.", "Requires the metrics feature build; wall-clock only used as a lower bound."),
}
NOT_YET = {
}
def main():
    checks=[]
    for pid,(engine,tech,text,note) in sorted(CLAIMED.items()):
        checks.append({
            "property_id": pid,
            "quick_cmd": f"./check {pid} --tier quick",
            "thorough_cmd": f"./check {pid} --tier thorough",
            "evidence_file": f"/verif/evidence/{pid}.json",
            "replay_cmd_template": f"./check {pid} --replay {{path}}",
            "engine": engine,
            "level_claimed": {"category": "fault_enumeration" if pid=="C12" else "exploration", "text": text, "design_ref": f"DESIGN.md section 5 ({pid})"},
            "level_note": note,
            "technique": "runtime monitoring: " + tech,
        })
    m={
     "version":1,
     "setup_cmd":"./check --setup",
     "hooks":{
        "guard":"--cfg rsactor_verif (rustc cfg flag; off by default)",
        "enable":"the harness crate's .cargo/config.toml passes RUSTFLAGS --cfg rsactor_verif when it builds /repo as a path dependency",
        "baseline_off_cmd":"cd /repo && CARGO_NET_OFFLINE=true cargo nextest run --workspace --no-fail-fast --test-threads 8 --offline",
        "source_commits":["6918ade"],
        "add_only":True,
     },
     "engines":[
        {"name":"sim","path":"harness/src/sim.rs","serves_properties":[p for p in sorted(CLAIMED) if "sim" in CLAIMED[p][0]],"kind_free_text":"deterministic simulation: real rsactor code on a single-thread paused-clock tokio runtime, seeded scripted actors/clients, quiescence by long virtual sleeps, trace oracles in harness/src/check.rs"},
        {"name":"featdiff","path":"lib/orchestrate.py","serves_properties":["C18"],"kind_free_text":"cross-build differential driver around the SIM engine"},
        {"name":"gen","path":"gen/macro_corpus.py","serves_properties":["C19"],"kind_free_text":"grammar-based generator of actor programs for the proc macros + runner"},
        {"name":"laws","path":"harness/src/laws.rs","serves_properties":["C05","C10"],"kind_free_text":"exhaustive accessor laws"},
        {"name":"probe","path":"harness/src/probe.rs","serves_properties":["C09"],"kind_free_text":"fresh-process probes of once-per-process configuration"},
        {"name":"mt","path":"harness/src/mt.rs","serves_properties":[p for p in sorted(CLAIMED) if "mt" in CLAIMED[p][0]],"kind_free_text":"real-thread rounds on multi-thread tokio runtimes with heartbeat/watchdog; same event model, interval-mode oracles"},
     ],
     "checks":checks,
     "notes":"All checks are ./check <ID> --tier quick|thorough (python3 orchestrator in lib/orchestrate.py; Rust harness crate in harness/). Exit 2 = inconclusive (build failure, watchdog, too few obligations).",
     "not_applicable":[{"property_id":k,"reason":v} for k,v in sorted(NOT_YET.items())],
    }
    json.dump(m, open(os.path.join(ROOT,"MANIFEST.json"),"w"), indent=1)
main()
