use crate::util::Args;
pub fn cmd_probe(_a: &Args) -> i32 {
    eprintln!("probe: not implemented yet");
    2
}
