#!/bin/bash
# Runs every seeded change against its own property's quick check in a private copy of /repo and /verif
# (so that /repo itself is never modified). usage: tools/matrix.sh [out-file] [ids...]
out=${1:-/verif/work/seeded_matrix.txt}; shift
T=${TRIAL:-/tmp/trial}
mkdir -p $T /verif/work
if [ ! -d $T/repo ]; then git -C /repo worktree add --detach $T/repo HEAD >/dev/null 2>&1 || exit 2; else git -C $T/repo checkout -q --detach $(git -C /repo rev-parse HEAD) && git -C $T/repo checkout -- .; fi
rsync -a --delete --exclude harness/target --exclude work --exclude .git --exclude evidence /verif/ $T/verif/
sed -i "s#path = \"/repo\"#path = \"$T/repo\"#" $T/verif/harness/Cargo.toml
export RSV_REPO=$T/repo RSV_VERIF=$T/verif
cd $T/verif && ./check --setup >/dev/null 2>&1
ids="$@"; [ -z "$ids" ] && ids=$(ls ${SEEDED_DIR:-/verif/seeded})
: > $out
for id in $ids; do
  p=${id:0:3}
  echo "== $id" >> $out
  TIER=${TIER:-quick} $T/verif/tools/try_seeded.sh ${SEEDED_DIR:-/verif/seeded}/$id/patch.diff $p 2>&1 | grep -v "^\[build\]" >> $out
done
echo MATRIX-DONE >> $out
