// Micro workload for Miri: ids under parallel spawn, dead-letter counter under concurrent failures,
// metrics readers, in-actor asks (wait-for mutex) from two actors concurrently, blocking with timeout.
use rsactor::{spawn, Actor, ActorRef, Message};
use std::collections::BTreeSet;
use std::sync::{Arc, Mutex};
use std::time::Duration;
struct A { peer: Option<ActorRef<A>> }
struct Ping(u64);
struct Fwd(u64);
impl Actor for A { type Args = Option<ActorRef<A>>; type Error = String; async fn on_start(p: Self::Args, _: &ActorRef<Self>) -> Result<Self, String> { Ok(A { peer: p }) } }
impl Message<Ping> for A { type Reply = u64; async fn handle(&mut self, m: Ping, _: &ActorRef<Self>) -> u64 { m.0 + 1 } }
impl Message<Fwd> for A { type Reply = u64; async fn handle(&mut self, m: Fwd, _: &ActorRef<Self>) -> u64 { match &self.peer { Some(p) => p.ask(Ping(m.0)).await.unwrap_or(0), None => 0 } } }
fn main() {
    let rt = tokio::runtime::Builder::new_multi_thread().worker_threads(2).enable_time().build().unwrap();
    let ids = Arc::new(Mutex::new(Vec::new()));
    // parallel spawn from 3 threads
    let mut ths = vec![];
    for _ in 0..3 { let ids = ids.clone(); let h = rt.handle().clone(); ths.push(std::thread::spawn(move || { let _g = h.enter(); for _ in 0..3 { let (r, _j) = spawn::<A>(None); ids.lock().unwrap().push(r.identity().id); } })); }
    for t in ths { t.join().unwrap(); }
    let v = ids.lock().unwrap().clone(); let s: BTreeSet<_> = v.iter().collect(); assert_eq!(s.len(), v.len(), "duplicate ids");
    rt.block_on(async {
        let (leaf, jl) = spawn::<A>(None);
        let (m1, j1) = spawn::<A>(Some(leaf.clone())); let (m2, j2) = spawn::<A>(Some(leaf.clone()));
        // concurrent in-actor asks through two middle actors (wait-for graph mutex from two workers)
        let (a, b) = tokio::join!(tokio::spawn({ let m1 = m1.clone(); async move { let mut s = 0; for i in 0..3 { s += m1.ask(Fwd(i)).await.unwrap(); } s } }), tokio::spawn({ let m2 = m2.clone(); async move { let mut s = 0; for i in 0..3 { s += m2.ask(Fwd(10 + i)).await.unwrap(); } s } }));
        assert_eq!(a.unwrap(), 6); assert_eq!(b.unwrap(), 36);
        // metrics readers
        assert_eq!(m1.message_count(), 3); assert_eq!(leaf.message_count(), 6); assert!(leaf.avg_processing_time() <= leaf.max_processing_time());
        // blocking with timeout from a std thread
        let l2 = leaf.clone(); let t = std::thread::spawn(move || l2.blocking_ask(Ping(5), Some(Duration::from_secs(5))).unwrap());
        assert_eq!(tokio::task::spawn_blocking(move || t.join().unwrap()).await.unwrap(), 6);
        // kill and concurrent failing sends -> dead letter counter
        leaf.kill().unwrap(); let _ = jl.await;
        let before = rsactor::dead_letter_count();
        let mut hs = vec![]; for k in 0..2u64 { let leaf = leaf.clone(); hs.push(tokio::spawn(async move { let mut f = 0; for i in 0..3 { if leaf.tell(Ping(i + k)).await.is_err() { f += 1; } if leaf.ask(Ping(i)).await.is_err() { f += 1; } } f })); }
        let l3 = leaf.clone(); let bt = std::thread::spawn(move || { let mut f = 0; for i in 0..2 { if l3.blocking_tell(Ping(i), None).is_err() { f += 1; } } f });
        let mut fails = 0; for h in hs { fails += h.await.unwrap(); } fails += tokio::task::spawn_blocking(move || bt.join().unwrap()).await.unwrap();
        assert_eq!(rsactor::dead_letter_count() - before, fails as u64); assert_eq!(fails, 14);
        m1.stop().await.unwrap(); m2.stop().await.unwrap(); drop(leaf);
        assert!(j1.await.unwrap().is_completed()); assert!(j2.await.unwrap().is_completed());
        println!("ok ids={} fails={}", v.len(), fails);
    });
}
