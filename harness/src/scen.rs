//! Scenario data model: everything an execution does is explicit data generated before the run
//! (no randomness at run time except the choice of erased derivation chains, which has its own stream).

use crate::ev::Out;

#[derive(Clone, Copy, Debug, PartialEq, Eq)]
pub enum SendKind {
    Tell,
    TellTo(u64),
    Ask,
    AskTo(u64),
    AskJoin,
}

#[derive(Clone, Copy, Debug, PartialEq, Eq)]
pub enum MTy {
    U,
    S,
    N,
    R,
    J,
}

/// flag on a timeout given in milliseconds: plus half a millisecond
pub const HALF_MS: u64 = 1 << 50;
/// the timeout is Duration::MAX (never expires; must not overflow anything)
pub const DUR_MAX: u64 = 1 << 52;
pub const F_JPANIC: u8 = 1;
pub const F_JABORT: u8 = 2;
/// the message's `on_tell_result` panics (only reached when the message was told, not asked)
pub const F_TRPANIC: u8 = 4;
/// the handler (a plain fn returning a future) spends wall time synchronously before it returns its future
pub const F_EAGER: u8 = 8;

#[derive(Clone, Debug)]
pub struct Body {
    pub uid: u64,
    pub flags: u8,
    pub steps: Vec<Step>,
}

impl Body {
    pub fn plain(uid: u64) -> Body {
        Body {
            uid,
            flags: 0,
            steps: vec![],
        }
    }
}

#[derive(Clone, Debug)]
pub enum Step {
    Sleep(u64),
    Yield,
    Gate(usize),
    KillSelf,
    /// the hook asks its own actor to stop gracefully (documented pattern); bounded, because the marker needs a mailbox slot
    StopSelf,
    KillPeer(usize),
    StopPeer(usize),
    /// awaited in-actor send
    Peer {
        target: usize,
        kind: SendKind,
        mty: MTy,
        body: Body,
    },
    /// in-actor ask raced against a timer inside `select!`; cancelled if the timer wins
    SelectAsk {
        target: usize,
        ms: u64,
        body: Body,
    },
    /// ask issued from a task spawned by the hook (not an actor context), not awaited
    DetachedAsk {
        target: usize,
        body: Body,
    },
    /// two in-actor asks awaited concurrently (`join!`) from one hook
    JoinAsk {
        t1: usize,
        b1: Body,
        t2: usize,
        b2: Body,
    },
    /// two ask futures are CREATED first (by calling `ask`, not polled), then awaited one after the other: whatever an ask
    /// registers about its caller belongs to the time it is awaited, not to the time its future was made
    SeqAsk2 {
        t1: usize,
        b1: Body,
        t2: usize,
        b2: Body,
    },
    /// an in-actor ask joined with a sibling future that panics after a yield (the ask is dropped by the unwinding hook)
    JoinAskPanic {
        target: usize,
        body: Body,
    },
    /// like JoinAsk but the second ask has a timeout (it may end by expiry while the first is answered)
    JoinAskTo {
        t1: usize,
        b1: Body,
        t2: usize,
        b2: Body,
        ms: u64,
    },
    HoldRef(usize),
    DropHeld(usize),
    /// tell a message to the hook's own actor through the reference the hook was given (`&ActorRef<Self>`, or the upgraded
    /// `&ActorWeak<Self>` in on_run/on_stop), with a short bound so that a full mailbox cannot wedge the hook
    TellSelf(Body),
    /// keep a clone of the hook's own `&ActorRef<Self>` in the actor's state (the actor then references itself)
    HoldSelf,
    /// upgrade the hook's own weak/strong handle and report whether it worked
    CheckUpgrade,
    /// spin for this many wall-clock microseconds (metrics lower bound)
    Busy(u64),
    /// consume this many units of tokio's cooperative budget (128 per task poll): when the budget runs out the hook is
    /// forced to yield at whatever budgeted operation comes next - a suspension point that exists in no source line
    Coop(u64),
    Panic,
    CheckIdent,
}

#[derive(Clone, Debug)]
pub struct HookScript {
    pub delay: u64,
    pub steps: Vec<Step>,
    pub out: Out,
}

impl Default for HookScript {
    fn default() -> Self {
        HookScript {
            delay: 0,
            steps: vec![],
            out: Out::Ok,
        }
    }
}

#[derive(Clone, Debug)]
pub struct RunStep {
    /// timer awaits (ms) performed in order; steps run after the last one
    pub segs: Vec<u64>,
    pub steps: Vec<Step>,
    pub out: Out,
}

#[derive(Clone, Debug)]
pub struct ActorSpec {
    /// None = `spawn()` (process default capacity)
    pub cap: Option<usize>,
    pub start: HookScript,
    pub run: Vec<RunStep>,
    pub stop: HookScript,
    /// on_run returns Err on the first poll of an invocation once this many messages have been handled
    pub run_err_when_handled: Option<u64>,
    /// does the peers table hold a strong reference to this actor until the epilogue?
    pub in_peers: bool,
}

#[derive(Clone, Copy, Debug, PartialEq, Eq)]
pub enum Pre {
    None,
    Yield,
    Sleep(u64),
    /// yield (fresh cooperative budget), then consume this many budget units without suspending
    Coop(u64),
}

#[derive(Clone, Debug)]
pub enum Op {
    Send {
        slot: usize,
        kind: SendKind,
        mty: MTy,
        body: Body,
    },
    Stop {
        slot: usize,
    },
    /// stop() wrapped in a timeout: given up (its future dropped) if the marker cannot be queued in time
    StopTo {
        slot: usize,
        ms: u64,
    },
    Kill {
        slot: usize,
    },
    CloneSlot {
        from: usize,
        to: usize,
    },
    DropSlot {
        slot: usize,
    },
    Downgrade {
        from: usize,
        to: usize,
    },
    Upgrade {
        from: usize,
        to: usize,
    },
    ProbeAlive {
        slot: usize,
    },
    ProbeIdent {
        slot: usize,
    },
    OpenGate(usize),
    /// create the call's future now, poll it only later (after a yield / a timer) or never: an operation must take
    /// effect when it is awaited, not when its future is created
    SendDeferred {
        slot: usize,
        kind: SendKind,
        body: Body,
        /// 0 = drop the future without ever polling it; 1 = yield once, then await; n>=2 = sleep n ms, then await
        defer: u64,
    },
    /// a send whose future is polled ONCE and then left alone for `hold` ms before it is awaited (a caller that is busy with
    /// something else): while it is parked on a full mailbox it may be handed the next free slot without knowing it
    SendHeld {
        slot: usize,
        kind: SendKind,
        body: Body,
        hold: u64,
    },
    /// the same for stop(): a stop future that is created and dropped unpolled (the losing branch of a select!) has requested
    /// nothing - the actor goes on, and a later stop() does stop it
    StopDeferred {
        slot: usize,
        defer: u64,
    },
}

#[derive(Clone, Debug)]
pub struct ClientOp {
    pub pre: Pre,
    pub op: Op,
}

#[derive(Clone, Debug)]
pub struct ClientSpec {
    /// slot i initially holds a strong handle to actor `init[i]` (or nothing)
    pub init: Vec<Option<usize>>,
    pub ops: Vec<ClientOp>,
    /// drop every remaining slot when the op list is finished (otherwise they live until the epilogue)
    pub drop_at_end: bool,
}

#[derive(Clone, Copy, Debug, PartialEq, Eq)]
pub enum Teardown {
    Stop,
    Kill,
    DropAll,
}

#[derive(Clone, Debug)]
pub struct Scenario {
    pub seed: u64,
    pub pert: u64,
    pub profile: String,
    pub actors: Vec<ActorSpec>,
    pub clients: Vec<ClientSpec>,
    pub ngates: usize,
    pub teardown: Vec<Teardown>,
    /// sampler wakes at these odd virtual instants
    pub sample_until: u64,
    /// open every gate at this (even) instant even if no client does (0 = only at Q1)
    pub default_cap: usize,
    /// perturbation must leave this scenario's delays alone
    pub fixed_timing: bool,
}

impl Scenario {
    pub fn cap_of(&self, a: usize) -> usize {
        self.actors[a].cap.unwrap_or(self.default_cap)
    }
    pub fn describe(&self) -> String {
        format!("{:#?}", self)
    }
}
