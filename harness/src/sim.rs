//! SIM engine: one scenario = one fresh current-thread, paused-clock tokio runtime running the real
//! rsactor code. Quiescence = the main task waking from a very long virtual sleep.

use crate::ev::*;
use futures::FutureExt;
use crate::sa::*;
use crate::scen::*;
use rsactor::{ActorRef, ActorWeak};
use std::cell::RefCell;
use std::rc::Rc;
use std::sync::Arc;
use std::time::Duration;

pub enum Hdl {
    S(usize, H),
    W(usize, Wk),
}

pub struct RunOut {
    pub log: Vec<Ev>,
    pub ids: Vec<u64>,
    pub caps: Vec<usize>,
    pub dl_delta: Option<u64>,
    pub odd_sample_violations: u64,
}

type Slots = Rc<RefCell<Vec<Vec<Option<Hdl>>>>>;

fn set_slot(sh: &Shared, slots: &Slots, c: usize, s: usize, new: Option<Hdl>) {
    let old = {
        let mut g = slots.borrow_mut();
        while g[c].len() <= s {
            g[c].push(None);
        }
        std::mem::replace(&mut g[c][s], new)
    };
    if let Some(Hdl::S(a, h)) = old {
        drop(h);
        sh.model_add(a, -1, "drop");
    }
}

fn take_slot(slots: &Slots, c: usize, s: usize) -> Option<Hdl> {
    let mut g = slots.borrow_mut();
    if s < g[c].len() {
        g[c][s].take()
    } else {
        None
    }
}

fn put_back(slots: &Slots, c: usize, s: usize, h: Hdl) {
    let mut g = slots.borrow_mut();
    while g[c].len() <= s {
        g[c].push(None);
    }
    g[c][s] = Some(h);
}

async fn pre(p: Pre) {
    match p {
        Pre::None => {}
        Pre::Yield => tokio::task::yield_now().await,
        Pre::Sleep(ms) => tokio::time::sleep(Duration::from_millis(ms)).await,
        Pre::Coop(n) => {
            tokio::task::yield_now().await;
            for _ in 0..n {
                tokio::task::coop::consume_budget().await;
            }
        }
    }
}

async fn client(sh: Arc<Shared>, c: usize, spec: ClientSpec, slots: Slots) {
    let ctx = Ctx::Client(c);
    for cop in spec.ops {
        pre(cop.pre).await;
        match cop.op {
            Op::Send {
                slot,
                kind,
                mty,
                body,
            } => match take_slot(&slots, c, slot) {
                Some(Hdl::S(a, h)) => {
                    send_via(&sh, ctx, a, &h, kind, mty, body).await;
                    put_back(&slots, c, slot, Hdl::S(a, h));
                }
                Some(other) => put_back(&slots, c, slot, other),
                None => {}
            },
            Op::SendDeferred { slot, kind, body, defer } => match take_slot(&slots, c, slot) {
                Some(Hdl::S(a, h)) => {
                    let uid = body.uid;
                    {
                        let fut = h.make_u(kind, body);
                        sh.log.push(K::Lazy { uid, what: "created" });
                        if defer == 0 {
                            drop(fut);
                            sh.log.push(K::Lazy { uid, what: "dropped-unpolled" });
                            tokio::task::yield_now().await;
                        } else {
                            if defer == 1 {
                                tokio::task::yield_now().await;
                            } else {
                                tokio::time::sleep(Duration::from_millis(defer)).await;
                            }
                            let (ok, to) = kind_of(kind);
                            let g = CallGuard::start(&sh, a, ok, 'U', uid, to, ctx);
                            let res = fut.await;
                            g.end(res);
                        }
                    }
                    put_back(&slots, c, slot, Hdl::S(a, h));
                }
                Some(other) => put_back(&slots, c, slot, other),
                None => {}
            },
            Op::SendHeld { slot, kind, body, hold } => match take_slot(&slots, c, slot) {
                Some(Hdl::S(a, h)) => {
                    let uid = body.uid;
                    {
                        let mut fut = h.make_u(kind, body);
                        let (ok, to) = kind_of(kind);
                        let g = CallGuard::start(&sh, a, ok, 'U', uid, to, ctx);
                        let res = match futures::poll!(fut.as_mut()) {
                            std::task::Poll::Ready(r) => r,
                            std::task::Poll::Pending => {
                                sh.log.push(K::Note(format!("held-unpolled uid {uid} for {hold} ms")));
                                tokio::time::sleep(Duration::from_millis(hold)).await;
                                fut.await
                            }
                        };
                        g.end(res);
                    }
                    put_back(&slots, c, slot, Hdl::S(a, h));
                }
                Some(other) => put_back(&slots, c, slot, other),
                None => {}
            },
            Op::StopDeferred { slot, defer } => match take_slot(&slots, c, slot) {
                Some(Hdl::S(a, h)) => {
                    {
                        let mut fut = h.make_stop(&sh);
                        if defer == 3 {
                            // polled exactly once, then dropped (now_or_never, the losing branch of a select!): either that
                            // one poll completed the stop, or nothing was requested
                            let g = CallGuard::start(&sh, a, OpKind::Stop, '-', 0, 0, ctx);
                            match futures::poll!(fut.as_mut()) {
                                std::task::Poll::Ready(res) => {
                                    g.end(to_res(res, |_| Rep::None));
                                }
                                std::task::Poll::Pending => {
                                    drop(fut);
                                    drop(g);
                                }
                            }
                            tokio::task::yield_now().await;
                        } else if defer == 0 {
                            drop(fut);
                            sh.log.push(K::Note(format!("stop-future-dropped-unpolled actor {a}")));
                            tokio::task::yield_now().await;
                        } else {
                            if defer == 1 {
                                tokio::task::yield_now().await;
                            } else {
                                tokio::time::sleep(Duration::from_millis(defer)).await;
                            }
                            let g = CallGuard::start(&sh, a, OpKind::Stop, '-', 0, 0, ctx);
                            let res = fut.await;
                            g.end(to_res(res, |_| Rep::None));
                        }
                    }
                    put_back(&slots, c, slot, Hdl::S(a, h));
                }
                Some(other) => put_back(&slots, c, slot, other),
                None => {}
            },
            Op::Stop { slot } => match take_slot(&slots, c, slot) {
                Some(Hdl::S(a, h)) => {
                    stop_via(&sh, ctx, a, &h).await;
                    put_back(&slots, c, slot, Hdl::S(a, h));
                }
                Some(other) => put_back(&slots, c, slot, other),
                None => {}
            },
            Op::StopTo { slot, ms } => match take_slot(&slots, c, slot) {
                Some(Hdl::S(a, h)) => {
                    // on expiry the stop future is dropped: the call guard records CallCancelled
                    let _ = tokio::time::timeout(Duration::from_millis(ms), stop_via(&sh, ctx, a, &h)).await;
                    put_back(&slots, c, slot, Hdl::S(a, h));
                }
                Some(other) => put_back(&slots, c, slot, other),
                None => {}
            },
            Op::Kill { slot } => match take_slot(&slots, c, slot) {
                Some(Hdl::S(a, h)) => {
                    kill_via(&sh, ctx, a, &h);
                    put_back(&slots, c, slot, Hdl::S(a, h));
                }
                Some(other) => put_back(&slots, c, slot, other),
                None => {}
            },
            Op::CloneSlot { from, to } => {
                let new = {
                    let g = slots.borrow();
                    match g[c].get(from).and_then(|o| o.as_ref()) {
                        Some(Hdl::S(a, h)) => Some(Hdl::S(*a, h.dup(&sh))),
                        Some(Hdl::W(a, w)) => Some(Hdl::W(*a, w.dup())),
                        None => None,
                    }
                };
                if let Some(n) = new {
                    if let Hdl::S(a, _) = &n {
                        sh.model_add(*a, 1, "clone");
                    }
                    set_slot(&sh, &slots, c, to, Some(n));
                } else {
                    // the source slot is empty at run time (an earlier upgrade failed): the target must not keep its old content
                    set_slot(&sh, &slots, c, to, None);
                }
            }
            Op::DropSlot { slot } => set_slot(&sh, &slots, c, slot, None),
            Op::Downgrade { from, to } => {
                let new = {
                    let g = slots.borrow();
                    match g[c].get(from).and_then(|o| o.as_ref()) {
                        Some(Hdl::S(a, h)) => Some(Hdl::W(*a, h.downgrade(&sh))),
                        _ => None,
                    }
                };
                set_slot(&sh, &slots, c, to, new);
            }
            Op::Upgrade { from, to } => {
                let up = {
                    let g = slots.borrow();
                    match g[c].get(from).and_then(|o| o.as_ref()) {
                        Some(Hdl::W(a, w)) => Some((*a, w.upgrade(&sh))),
                        _ => None,
                    }
                };
                match up {
                    Some((a, Some(h))) => {
                        sh.model_add(a, 1, "upgrade-some");
                        set_slot(&sh, &slots, c, to, Some(Hdl::S(a, h)));
                    }
                    Some((a, None)) => {
                        sh.model_add(a, 0, "upgrade-none");
                        // the generator built the later ops on this slot for actor `a`: the slot must not keep referring to
                        // whatever it held before (a message scripted for `a` could otherwise reach another actor)
                        set_slot(&sh, &slots, c, to, None);
                    }
                    None => {
                        set_slot(&sh, &slots, c, to, None);
                    }
                }
            }
            Op::ProbeAlive { slot } => {
                let g = slots.borrow();
                match g[c].get(slot).and_then(|o| o.as_ref()) {
                    Some(Hdl::S(a, h)) => {
                        let al = h.is_alive(&sh);
                        sh.log.push(K::Sample {
                            actor: *a,
                            phase: "client-strong",
                            finished: false,
                            alive: Some(al),
                            weak_alive: false,
                            upgrade: true,
                            model: sh.model_of(*a),
                        });
                    }
                    Some(Hdl::W(a, w)) => {
                        let al = w.is_alive(&sh);
                        sh.log.push(K::Sample {
                            actor: *a,
                            phase: "client-weak",
                            finished: false,
                            alive: None,
                            weak_alive: al,
                            upgrade: al,
                            model: sh.model_of(*a),
                        });
                    }
                    None => {}
                }
            }
            Op::ProbeIdent { slot } => {
                let g = slots.borrow();
                match g[c].get(slot).and_then(|o| o.as_ref()) {
                    Some(Hdl::S(a, h)) => {
                        let id = h.identity(&sh);
                        sh.log.push(K::Ident {
                            actor: *a,
                            via: "client-strong",
                            id: id.id,
                            type_ok: crate::sa::ident_ok(&id),
                        });
                    }
                    Some(Hdl::W(a, w)) => {
                        let id = w.identity(&sh);
                        sh.log.push(K::Ident {
                            actor: *a,
                            via: "client-weak",
                            id: id.id,
                            type_ok: crate::sa::ident_ok(&id),
                        });
                    }
                    None => {}
                }
            }
            Op::OpenGate(g) => {
                sh.log.push(K::Note(format!("gate {g} opened by client {c}")));
                sh.gates[g].add_permits(1 << 20);
            }
        }
    }
    if spec.drop_at_end {
        let n = slots.borrow()[c].len();
        for s in 0..n {
            set_slot(&sh, &slots, c, s, None);
        }
    }
}

struct SimCtx {
    sh: Arc<Shared>,
    weaks: Vec<ActorWeak<SA>>,
    watchers: Vec<tokio::task::JoinHandle<()>>,
    ids: Vec<u64>,
}

fn do_sample(cx: &SimCtx, phase: &'static str) {
    let sh = &cx.sh;
    for (i, w) in cx.weaks.iter().enumerate() {
        let finished = cx.watchers[i].is_finished();
        let weak_alive = w.is_alive();
        let up = w.upgrade();
        let alive = up.as_ref().map(|r| r.is_alive());
        #[cfg(feature = "f_metrics")]
        if let Some(r) = up.as_ref() {
            metrics_event(sh, i, r, "weak-upgraded");
        }
        sh.log.push(K::Sample {
            actor: i,
            phase,
            finished,
            alive,
            weak_alive,
            upgrade: up.is_some(),
            model: sh.model_of(i),
        });
        drop(up);
    }
    #[cfg(all(feature = "f_deadlock", rsactor_verif))]
    {
        let snap = rsactor::verif::wait_for_snapshot();
        let edges: Vec<(u64, u64)> = snap
            .into_iter()
            .filter(|(a, b)| cx.ids.contains(a) || cx.ids.contains(b) || *a == u64::MAX)
            .collect();
        sh.log.push(K::Graph { phase, edges });
    }
    let _ = &cx.ids;
}

#[cfg(feature = "f_metrics")]
pub fn metrics_event(sh: &Shared, actor: usize, r: &ActorRef<SA>, via: &'static str) {
    let pre = sh.log.len() as u64;
    // reading metrics is a pure observation: it must never take the reader down with it
    let read = std::panic::catch_unwind(std::panic::AssertUnwindSafe(|| (r.message_count(), r.avg_processing_time(), r.max_processing_time(), r.metrics())));
    let (count, avg, max, snap) = match read {
        Ok(x) => x,
        Err(p) => {
            sh.viol(format!("C20 reading the metrics of actor {actor} via {via} panicked in the reader: {}", crate::ev::panic_payload_to_string(p.as_ref())));
            return;
        }
    };
    sh.log.push(K::Metrics {
        actor,
        via,
        pre,
        count,
        avg_ns: avg.as_nanos() as u64,
        max_ns: max.as_nanos() as u64,
        snap_count: snap.message_count,
        snap_avg_ns: snap.avg_processing_time.as_nanos() as u64,
        snap_max_ns: snap.max_processing_time.as_nanos() as u64,
    });
}

/// find a strong handle to actor `a` that the harness holds (peers table first, then client slots)
fn with_strong<R>(sh: &Shared, slots: &Slots, a: usize, f: impl FnOnce(&H) -> R) -> Option<R> {
    {
        let g = sh.peers.lock().unwrap_or_else(|e| e.into_inner());
        if let Some(Some(h)) = g.get(a) {
            return Some(f(h));
        }
    }
    let g = slots.borrow();
    for c in g.iter() {
        for s in c.iter() {
            if let Some(Hdl::S(x, h)) = s {
                if *x == a {
                    return Some(f(h));
                }
            }
        }
    }
    None
}

fn take_strong(sh: &Shared, slots: &Slots, a: usize) -> Option<(H, Option<(usize, usize)>)> {
    {
        let mut g = sh.peers.lock().unwrap_or_else(|e| e.into_inner());
        if let Some(o) = g.get_mut(a) {
            if let Some(h) = o.take() {
                return Some((h, None));
            }
        }
    }
    let mut g = slots.borrow_mut();
    for (ci, c) in g.iter_mut().enumerate() {
        for (si, s) in c.iter_mut().enumerate() {
            if matches!(s, Some(Hdl::S(x, _)) if *x == a) {
                if let Some(Hdl::S(_, h)) = s.take() {
                    return Some((h, Some((ci, si))));
                }
            }
        }
    }
    None
}

fn give_back(sh: &Shared, slots: &Slots, a: usize, h: H, at: Option<(usize, usize)>) {
    match at {
        None => sh.peers.lock().unwrap_or_else(|e| e.into_inner())[a] = Some(h),
        Some((c, s)) => slots.borrow_mut()[c][s] = Some(Hdl::S(a, h)),
    }
}

pub const PROBE_UID_BASE: u64 = 9_000_000;
pub const POST_UID_BASE: u64 = 9_500_000;

pub fn run_scenario(sc: &Scenario, erased: bool) -> RunOut {
    let rt = tokio::runtime::Builder::new_current_thread()
        .enable_time()
        .start_paused(true)
        .build()
        .expect("runtime");
    #[cfg(feature = "f_testutils")]
    let dl0 = rsactor::dead_letter_count();
    let n = sc.actors.len();
    let sc2 = sc.clone();
    let (log, ids, odd) = rt.block_on(async move {
        let sc = sc2;
        let sh = Shared::new(n, sc.ngates, erased, true, crate::util::mix(sc.seed, 0xE7A5ED));
        CUR_LOG.with(|c| *c.borrow_mut() = Some(sh.log.clone()));
        *crate::CURRENT.lock().unwrap_or_else(|e| e.into_inner()) =
            Some((sc.profile.clone(), sc.seed, sc.pert, erased, crate::SERIAL.load(std::sync::atomic::Ordering::Relaxed), sh.log.clone()));
        let t0 = sh.log.0.t0_tokio;
        let mut refs: Vec<Option<ActorRef<SA>>> = vec![];
        let mut weaks = vec![];
        let mut watchers = vec![];
        for (i, spec) in sc.actors.iter().enumerate() {
            let (r, jh) = spawn_sa(&sh, i, spec);
            weaks.push(ActorRef::downgrade(&r));
            watchers.push(tokio::spawn(watch(sh.clone(), i, jh)));
            refs.push(Some(r));
        }
        let ids: Vec<u64> = sh.ids.lock().unwrap().clone();
        // distribute handles
        let slots: Slots = Rc::new(RefCell::new(Vec::new()));
        for cs in sc.clients.iter() {
            let mut v = vec![];
            for init in cs.init.iter() {
                match init {
                    Some(a) => {
                        let h = H::from_ref(refs[*a].as_ref().unwrap().clone(), &sh);
                        sh.model_add(*a, 1, "slot-init");
                        v.push(Some(Hdl::S(*a, h)));
                    }
                    None => v.push(None),
                }
            }
            slots.borrow_mut().push(v);
        }
        for (i, spec) in sc.actors.iter().enumerate() {
            if spec.in_peers {
                let h = H::from_ref(refs[i].as_ref().unwrap().clone(), &sh);
                sh.peers.lock().unwrap()[i] = Some(h);
                sh.model_add(i, 1, "peers");
            }
        }
        for r in refs.iter_mut() {
            *r = None;
        }
        drop(refs);
        for i in 0..n {
            // spawner's handles are gone: if nothing else holds the actor, the model is 0 from the start
            if sh.model_of(i) == 0 {
                sh.model_add(i, 0, "spawner-dropped");
            }
        }

        let cx = Rc::new(SimCtx {
            sh: sh.clone(),
            weaks,
            watchers,
            ids: ids.clone(),
        });
        let local = tokio::task::LocalSet::new();
        let mut chandles = vec![];
        for (c, cs) in sc.clients.iter().enumerate() {
            chandles.push(local.spawn_local(client(sh.clone(), c, cs.clone(), slots.clone())));
        }
        // sampler on odd instants
        let odd_viol = Rc::new(std::cell::Cell::new(0u64));
        {
            let cx = cx.clone();
            let until = sc.sample_until;
            let odd_viol = odd_viol.clone();
            local.spawn_local(async move {
                let mut t = 1u64;
                while t <= until {
                    tokio::time::sleep_until(t0 + Duration::from_millis(t)).await;
                    if cx.sh.log.now() % 2 != 1 {
                        odd_viol.set(odd_viol.get() + 1);
                    }
                    do_sample(&cx, "tick");
                    t += 2;
                }
            });
        }
        let sh2 = sh.clone();
        let cx2 = cx.clone();
        let slots2 = slots.clone();
        local
            .run_until(async move {
                let sh = sh2;
                let cx = cx2;
                let slots = slots2;
                const HOUR: u64 = 3_600_000;
                tokio::time::sleep_until(t0 + Duration::from_millis(HOUR + 1)).await;
                sh.log.push(K::Phase("Q1"));
                do_sample(&cx, "Q1");
                for g in sh.gates.iter() {
                    g.add_permits(1 << 20);
                }
                sh.log.push(K::Phase("gates-open"));
                tokio::time::sleep(Duration::from_millis(HOUR)).await;
                sh.log.push(K::Phase("Q2"));
                do_sample(&cx, "Q2");
                // ---- probe phase
                sh.log.push(K::Phase("probe"));
                for a in 0..n {
                    // identities through every handle the harness still holds
                    {
                        let g = slots.borrow();
                        for c in g.iter() {
                            for s in c.iter() {
                                match s {
                                    Some(Hdl::S(x, h)) if *x == a => {
                                        let id = h.identity(&sh);
                                        sh.log.push(K::Ident {
                                            actor: a,
                                            via: "probe-strong",
                                            id: id.id,
                                            type_ok: crate::sa::ident_ok(&id),
                                        });
                                    }
                                    Some(Hdl::W(x, w)) if *x == a => {
                                        let id = w.identity(&sh);
                                        sh.log.push(K::Ident {
                                            actor: a,
                                            via: "probe-weak",
                                            id: id.id,
                                            type_ok: crate::sa::ident_ok(&id),
                                        });
                                    }
                                    _ => {}
                                }
                            }
                        }
                    }
                    let wid = cx.weaks[a].identity();
                    sh.log.push(K::Ident {
                        actor: a,
                        via: "harness-weak",
                        id: wid.id,
                        type_ok: crate::sa::ident_ok(&wid),
                    });
                    if let Some((h, at)) = take_strong(&sh, &slots, a) {
                        let g = CallGuard::start(&sh, a, OpKind::Probe, 'U', PROBE_UID_BASE + a as u64, 0, Ctx::Main);
                        // bounded (one virtual hour): an actor stuck in a hook must not block the harness itself
                        // (a panic raised inside the call under test must not take the harness' own task down: the guard records it)
                        match tokio::time::timeout(Duration::from_millis(HOUR), std::panic::AssertUnwindSafe(probe_ask(&sh, &h, PROBE_UID_BASE + a as u64)).catch_unwind()).await {
                            Ok(Ok(res)) => {
                                g.end(res);
                            }
                            _ => drop(g),
                        }
                        give_back(&sh, &slots, a, h, at);
                    }
                }
                tokio::time::sleep(Duration::from_millis(HOUR)).await;
                sh.log.push(K::Phase("Q2b"));
                do_sample(&cx, "Q2b");
                // ---- teardown
                sh.log.push(K::Phase("teardown"));
                let mut survivors: Vec<Option<H>> = (0..n).map(|_| None).collect();
                for a in 0..n {
                    let td = sc.teardown[a];
                    if let Some((h, at)) = take_strong(&sh, &slots, a) {
                        match td {
                            Teardown::Stop => {
                                let _ = std::panic::AssertUnwindSafe(stop_via(&sh, Ctx::Main, a, &h)).catch_unwind().await;
                            }
                            Teardown::Kill => {
                                let _ = std::panic::catch_unwind(std::panic::AssertUnwindSafe(|| kill_via(&sh, Ctx::Main, a, &h)));
                            }
                            Teardown::DropAll => {}
                        }
                        if td != Teardown::DropAll && sc.seed.wrapping_add(a as u64) % 2 == 0 {
                            // keep one strong handle through the end for post-mortem checks
                            sh.model_add(a, 1, "survivor");
                            survivors[a] = Some(h.dup(&sh));
                        }
                        give_back(&sh, &slots, a, h, at);
                    }
                }
                // drop every handle the harness holds
                let nc = slots.borrow().len();
                for c in 0..nc {
                    let ns = slots.borrow()[c].len();
                    for s in 0..ns {
                        set_slot(&sh, &slots, c, s, None);
                    }
                }
                for a in 0..n {
                    let h = sh.peers.lock().unwrap()[a].take();
                    if let Some(h) = h {
                        drop(h);
                        sh.model_add(a, -1, "peers-drop");
                    }
                }
                tokio::time::sleep(Duration::from_millis(HOUR)).await;
                sh.log.push(K::Phase("Q3"));
                do_sample(&cx, "Q3");
                // ---- post-mortem through survivors
                sh.log.push(K::Phase("post-mortem"));
                for a in 0..n {
                    if let Some(h) = survivors[a].take() {
                        let al = h.is_alive(&sh);
                        sh.log.push(K::Sample {
                            actor: a,
                            phase: "post-mortem",
                            finished: cx.watchers[a].is_finished(),
                            alive: Some(al),
                            weak_alive: cx.weaks[a].is_alive(),
                            upgrade: cx.weaks[a].upgrade().is_some(),
                            model: sh.model_of(a),
                        });
                        #[cfg(feature = "f_metrics")]
                        if let Some(r) = h.as_ref_direct() {
                            metrics_event(&sh, a, r, "survivor-strong");
                        }
                        let uid = POST_UID_BASE + 10 * a as u64;
                        let _ = std::panic::AssertUnwindSafe(async {
                            send_via(&sh, Ctx::Main, a, &h, SendKind::Tell, MTy::U, Body::plain(uid)).await;
                        })
                        .catch_unwind()
                        .await;
                        let _ = std::panic::AssertUnwindSafe(async {
                            send_via(&sh, Ctx::Main, a, &h, SendKind::Ask, MTy::S, Body::plain(uid + 1)).await;
                        })
                        .catch_unwind()
                        .await;
                        let _ = std::panic::AssertUnwindSafe(async {
                            send_via(&sh, Ctx::Main, a, &h, SendKind::AskTo(4), MTy::R, Body::plain(uid + 2)).await;
                            send_via(&sh, Ctx::Main, a, &h, SendKind::TellTo(4), MTy::N, Body::plain(uid + 3)).await;
                            stop_via(&sh, Ctx::Main, a, &h).await;
                        })
                        .catch_unwind()
                        .await;
                        let _ = std::panic::catch_unwind(std::panic::AssertUnwindSafe(|| kill_via(&sh, Ctx::Main, a, &h)));
                        drop(h);
                        sh.model_add(a, -1, "survivor-drop");
                    }
                }
                tokio::time::sleep(Duration::from_millis(HOUR)).await;
                sh.log.push(K::Phase("final"));
                do_sample(&cx, "final");
            })
            .await;
        drop(chandles);
        let log = sh.log.snapshot();
        for id in ids.iter() {
            reg_remove(*id);
        }
        (log, ids, odd_viol.get())
    });
    drop(rt);
    #[cfg(feature = "f_testutils")]
    let dl_delta = Some(rsactor::dead_letter_count() - dl0);
    #[cfg(not(feature = "f_testutils"))]
    let dl_delta = None;
    RunOut {
        log,
        ids,
        caps: (0..n).map(|a| sc.cap_of(a)).collect(),
        dl_delta,
        odd_sample_violations: odd,
    }
}

async fn probe_ask(sh: &Shared, h: &H, uid: u64) -> Res {
    // same routing as send_via but recorded by the caller as a Probe
    use rsactor::AskHandler;
    let _ = sh;
    match h {
        H::D(r) => match r.ask(MU(Body::plain(uid))).await {
            Ok(v) => Res::Ok(Rep::U(v)),
            Err(e) => map_err(&e),
        },
        H::E(_) => {
            // erased probes go through the normal path; re-log as an Ask is avoided by using a private call
            match h {
                H::E(e) => {
                    let a: &dyn AskHandler<MU, u64> = e.ask_u();
                    match a.ask(MU(Body::plain(uid))).await {
                        Ok(v) => Res::Ok(Rep::U(v)),
                        Err(e) => map_err(&e),
                    }
                }
                _ => unreachable!(),
            }
        }
    }
}
