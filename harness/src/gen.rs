//! Seeded scenario generator. A profile biases the generator towards what a property needs; all
//! monitors run on all profiles.

use crate::ev::Out;
use crate::scen::*;
use crate::util::Rng;

pub const PROFILES: &[&str] = &[
    "traffic",
    "backpressure",
    "lifecycle",
    "kill",
    "refs",
    "idle",
    "timeouts",
    "faults",
    "metrics",
    "deadlock",
];

#[derive(Clone, Debug)]
struct P {
    actors: (u64, u64),
    clients: (u64, u64),
    ops: (u64, u64),
    caps: Vec<Option<usize>>,
    // op weights: Tell, TellTo, Ask, AskTo, AskJoin, Stop, Kill, Clone, Drop, Downgrade, Upgrade, ProbeAlive, ProbeIdent, OpenGate
    w_op: [u64; 14],
    p_gate: u64,
    p_sleep: u64,
    p_kill_self: u64,
    p_hpanic: u64,
    p_peer: u64,
    p_hold: u64,
    p_busy: u64,
    p_select: u64,
    p_join: u64,
    p_self_tell: u64,
    p_long_busy: u64,
    p_detached: u64,
    p_start_delay: u64,
    p_start_err: u64,
    p_start_panic: u64,
    p_stop_err: u64,
    p_stop_panic: u64,
    p_stop_delay: u64,
    run_len: (u64, u64),
    p_run_err: u64,
    p_run_false: u64,
    p_run_panic: u64,
    p_in_peers: u64,
    p_tell_only: u64,
    p_drop_at_end: u64,
    first_gated: u64,
    burst: u64,
    sample_until: u64,
    timeouts: Vec<u64>,
    sleeps: Vec<u64>,
}

fn base() -> P {
    P {
        actors: (1, 3),
        clients: (2, 5),
        ops: (2, 8),
        caps: vec![Some(1), Some(2), Some(3), Some(4), Some(8), None, None, Some(300), Some(33), Some(50)],
        w_op: [30, 8, 22, 8, 4, 3, 3, 4, 4, 3, 3, 2, 2, 4],
        p_gate: 10,
        p_sleep: 40,
        p_kill_self: 2,
        p_hpanic: 2,
        p_peer: 15,
        p_hold: 0,
        p_busy: 0,
        p_select: 2,
        p_join: 3,
        p_self_tell: 2,
        p_long_busy: 0,
        p_detached: 2,
        p_start_delay: 40,
        p_start_err: 4,
        p_start_panic: 2,
        p_stop_err: 8,
        p_stop_panic: 3,
        p_stop_delay: 50,
        run_len: (0, 3),
        p_run_err: 8,
        p_run_false: 25,
        p_run_panic: 3,
        p_in_peers: 60,
        p_tell_only: 0,
        p_drop_at_end: 40,
        first_gated: 0,
        burst: 0,
        sample_until: 41,
        timeouts: vec![2, 4, 6, 10, 20],
        sleeps: vec![2, 2, 4, 6],
    }
}

fn profile(name: &str) -> P {
    let mut p = base();
    match name {
        "traffic" => {
            p.clients = (3, 7);
            p.ops = (3, 10);
            p.p_start_err = 1;
            p.p_start_panic = 0;
            p.p_run_panic = 0;
            p.p_hpanic = 1;
        }
        "backpressure" => {
            p.actors = (1, 2);
            p.clients = (3, 8);
            p.ops = (2, 6);
            p.caps = vec![Some(1), Some(1), Some(2), Some(3), Some(5), Some(8), Some(32), None, Some(300), Some(33), Some(40)];
            p.w_op = [60, 10, 0, 0, 0, 5, 2, 3, 5, 2, 2, 2, 1, 6];
            p.p_tell_only = 100;
            p.p_self_tell = 8;
            p.first_gated = 85;
            p.p_gate = 15;
            p.p_peer = 0;
            p.p_select = 0;
            p.p_join = 0;
            p.p_detached = 0;
            p.p_hpanic = 0;
            p.p_kill_self = 0;
            p.p_start_err = 0;
            p.p_start_panic = 0;
            p.p_run_panic = 0;
            p.p_run_err = 2;
            p.p_stop_panic = 0;
        }
        "lifecycle" => {
            p.clients = (1, 4);
            p.ops = (1, 6);
            p.w_op = [25, 5, 20, 5, 8, 12, 10, 3, 6, 2, 2, 2, 2, 4];
            p.p_start_delay = 70;
            p.p_start_err = 10;
            p.p_start_panic = 5;
            p.p_stop_err = 20;
            p.p_stop_panic = 6;
            p.p_run_err = 15;
            p.p_run_panic = 6;
            p.p_kill_self = 5;
            p.p_hpanic = 4;
            p.run_len = (0, 4);
            p.burst = 8;
        }
        "kill" => {
            p.clients = (2, 6);
            p.ops = (2, 7);
            p.w_op = [35, 5, 22, 5, 8, 4, 14, 2, 3, 1, 1, 2, 1, 4];
            p.first_gated = 50;
            p.burst = 8;
            p.p_kill_self = 8;
            p.p_start_err = 2;
            p.p_start_panic = 1;
            p.p_hpanic = 1;
            p.p_run_panic = 1;
            p.caps = vec![Some(1), Some(2), Some(4), Some(8), Some(8), None];
        }
        "refs" => {
            p.clients = (2, 5);
            p.ops = (3, 10);
            p.w_op = [22, 3, 12, 3, 1, 3, 2, 12, 16, 10, 12, 6, 6, 4];
            p.p_in_peers = 25;
            p.p_hold = 12;
            p.p_drop_at_end = 70;
            p.p_start_err = 2;
            p.p_start_panic = 1;
            p.p_hpanic = 1;
            p.p_run_panic = 1;
            p.p_run_err = 4;
            p.first_gated = 25;
        }
        "idle" => {
            p.actors = (1, 2);
            p.clients = (1, 4);
            p.ops = (2, 9);
            p.w_op = [40, 4, 25, 4, 2, 3, 4, 1, 2, 1, 1, 1, 1, 2];
            p.run_len = (1, 6);
            p.p_run_err = 10;
            p.p_run_false = 20;
            p.p_run_panic = 2;
            p.p_start_err = 1;
            p.p_start_panic = 0;
            p.p_hpanic = 1;
            p.burst = 8;
            p.caps = vec![Some(1), Some(2), Some(4), Some(16), Some(64), None];
        }
        "timeouts" => {
            p.clients = (2, 6);
            p.ops = (2, 7);
            p.w_op = [12, 28, 8, 34, 0, 3, 4, 1, 2, 1, 1, 1, 1, 4];
            p.first_gated = 35;
            p.p_sleep = 70;
            p.sleeps = vec![2, 4, 6, 8, 10, 20];
            p.timeouts = vec![2, 2, 4, 6, 10, 20, 50, 2, 4, 6, 10, 20, 1 << 40, 0, 4300, 66_000, DUR_MAX, 1 | HALF_MS, 3 | HALF_MS, 5 | HALF_MS, 9 | HALF_MS];
            p.p_long_busy = 2;
            p.caps = vec![Some(1), Some(1), Some(2), Some(4), None];
            p.p_start_err = 3;
            p.p_hpanic = 3;
        }
        "faults" => {
            p.actors = (3, 5);
            p.clients = (3, 7);
            p.ops = (2, 7);
            p.p_peer = 30;
            p.p_join = 8;
            p.p_in_peers = 90;
            p.p_hpanic = 0;
            p.p_start_panic = 0;
            p.p_stop_panic = 0;
            p.p_run_panic = 0;
            p.p_start_err = 0;
            p.p_run_err = 0;
            p.p_stop_err = 0;
            p.p_kill_self = 0;
            p.w_op = [30, 8, 24, 8, 4, 2, 1, 3, 3, 2, 2, 2, 2, 4];
        }
        "metrics" => {
            p.actors = (1, 2);
            p.clients = (1, 4);
            p.ops = (2, 8);
            p.p_busy = 50;
            p.p_hpanic = 4;
            p.p_start_err = 1;
            p.p_start_panic = 0;
            p.w_op = [35, 4, 30, 4, 3, 4, 4, 2, 2, 1, 1, 1, 1, 3];
        }
        _ => {}
    }
    p
}

struct G {
    r: Rng,
    uid: u64,
    p: P,
    n: usize,
    ngates: usize,
    in_peers: Vec<bool>,
}

impl G {
    fn uid(&mut self) -> u64 {
        self.uid += 1;
        self.uid
    }
    fn sleep(&mut self) -> u64 {
        let v = self.p.sleeps.clone();
        *self.r.pick(&v)
    }
    fn timeout(&mut self) -> u64 {
        let v = self.p.timeouts.clone();
        *self.r.pick(&v)
    }
    fn mty(&mut self, allow_j: bool) -> MTy {
        match self.r.weighted(&[40, 15, 15, 15, if allow_j { 10 } else { 0 }]) {
            0 => MTy::U,
            1 => MTy::S,
            2 => MTy::N,
            3 => MTy::R,
            _ => MTy::J,
        }
    }
    fn downstream(&mut self, from: usize) -> Option<usize> {
        let c: Vec<usize> = (from + 1..self.n).filter(|t| self.in_peers[*t]).collect();
        if c.is_empty() {
            None
        } else {
            Some(*self.r.pick(&c))
        }
    }
    fn sub_body(&mut self, owner: usize, depth: u32) -> Body {
        let uid = self.uid();
        let mut steps = vec![];
        if self.r.chance(40) {
            steps.push(Step::Sleep(self.sleep()));
        }
        if depth < 2 && self.r.chance(20) {
            if let Some(t) = self.downstream(owner) {
                let kind = if self.r.chance(50) { SendKind::Ask } else { SendKind::Tell };
                let body = self.sub_body(t, depth + 1);
                steps.push(Step::Peer {
                    target: t,
                    kind,
                    mty: MTy::U,
                    body,
                });
            }
        }
        Body { uid, flags: 0, steps }
    }
    /// steps of a message sent by a client to actor `a`
    fn msg_steps(&mut self, a: usize) -> Vec<Step> {
        let mut s = vec![];
        if self.r.chance(self.p.p_gate) && self.ngates > 0 {
            s.push(Step::Gate(self.r.below(self.ngates as u64) as usize));
        }
        if self.r.chance(self.p.p_sleep) {
            s.push(Step::Sleep(self.sleep()));
        }
        if self.r.chance(10) {
            s.push(Step::Yield);
        }
        if self.r.chance(5) {
            s.push(Step::Coop(if self.r.chance(70) { 128 - self.r.below(6) } else { self.r.range(1, 300) }));
        }
        if self.r.chance(self.p.p_peer) {
            if let Some(t) = self.downstream(a) {
                let kind = match self.r.below(10) {
                    0..=3 => SendKind::Ask,
                    4..=6 => SendKind::Tell,
                    7 => SendKind::AskTo(self.timeout()),
                    8 => SendKind::TellTo(self.timeout()),
                    _ => SendKind::Ask,
                };
                let mty = self.mty(false);
                let body = self.sub_body(t, 1);
                s.push(Step::Peer {
                    target: t,
                    kind,
                    mty,
                    body,
                });
            }
        }
        if self.r.chance(self.p.p_self_tell) && self.in_peers[a] {
            // a handler sends to its own actor with a bounded wait (an unbounded self-send into a full mailbox would deadlock the workload)
            let uid = self.uid();
            let t = 2 * self.r.range(1, 3); // always a short bound: this wait can only end by the timeout when the mailbox is full
            s.push(Step::Peer {
                target: a,
                kind: SendKind::TellTo(t),
                mty: MTy::U,
                body: Body::plain(uid),
            });
        }
        if self.r.chance(self.p.p_join) {
            if let (Some(t1), Some(t2)) = (self.downstream(a), self.downstream(a)) {
                let b1 = self.sub_body(t1, 2);
                let b2 = self.sub_body(t2, 2);
                s.push(Step::JoinAsk { t1, b1, t2, b2 });
            }
        }
        if self.r.chance(self.p.p_long_busy) {
            // a handler that takes real (wall-clock) time without any virtual time passing
            s.push(Step::Busy(2200 + self.r.below(1500)));
        }
        if self.r.chance(self.p.p_select) {
            if let Some(t) = self.downstream(a) {
                let body = self.sub_body(t, 2);
                s.push(Step::SelectAsk {
                    target: t,
                    ms: self.timeout(),
                    body,
                });
            }
        }
        if self.r.chance(self.p.p_detached) {
            if let Some(t) = self.downstream(a) {
                let body = self.sub_body(t, 2);
                s.push(Step::DetachedAsk { target: t, body });
            }
        }
        if self.r.chance(self.p.p_hold) {
            let c: Vec<usize> = (0..self.n).filter(|t| *t != a && self.in_peers[*t]).collect();
            if !c.is_empty() {
                let t = *self.r.pick(&c);
                if self.r.chance(60) {
                    s.push(Step::HoldRef(t));
                } else {
                    s.push(Step::DropHeld(if self.r.chance(30) { a } else { t }));
                }
            }
        }
        if self.r.chance(self.p.p_busy) {
            s.push(Step::Busy(20 + self.r.below(200)));
        }
        if self.r.chance(5) {
            s.push(Step::CheckIdent);
        }
        if self.r.chance(4) {
            s.push(Step::CheckUpgrade);
        }
        if self.r.chance(self.p.p_hold / 3) {
            s.push(Step::HoldSelf);
        }
        if self.r.chance(2) {
            if let Some(t) = self.downstream(a) {
                s.push(if self.r.chance(50) { Step::KillPeer(t) } else { Step::StopPeer(t) });
            }
        }
        if self.r.chance(self.p.p_kill_self) {
            s.push(Step::KillSelf);
            if self.r.chance(50) {
                s.push(Step::Sleep(2));
            }
        }
        if self.r.chance(self.p.p_kill_self.min(4)) {
            // the handler stops its own actor: everything accepted before is still handled, then on_stop(false)
            s.push(Step::StopSelf);
        }
        if self.r.chance(self.p.p_hpanic) {
            s.push(Step::Panic);
        }
        s
    }
    fn hook_steps(&mut self, a: usize) -> Vec<Step> {
        let mut s = vec![];
        if self.r.chance(10) {
            s.push(Step::CheckIdent);
        }
        if self.r.chance(10) {
            s.push(Step::CheckUpgrade);
        }
        if self.r.chance(self.p.p_peer / 2) {
            if let Some(t) = self.downstream(a) {
                let kind = if self.r.chance(60) { SendKind::Ask } else { SendKind::Tell };
                let body = self.sub_body(t, 2);
                s.push(Step::Peer {
                    target: t,
                    kind,
                    mty: MTy::U,
                    body,
                });
            }
        }
        if self.r.chance(6) {
            // a hook tells its own actor through the reference it was handed (from on_start: the first accepted message)
            let uid = self.uid();
            s.push(Step::TellSelf(Body::plain(uid)));
        }
        if self.r.chance(self.p.p_kill_self) {
            s.push(Step::KillSelf);
        }
        s
    }
    fn actor(&mut self, a: usize) -> ActorSpec {
        let caps = self.p.caps.clone();
        let cap = *self.r.pick(&caps);
        let start_steps = self.hook_steps(a);
        let start = HookScript {
            delay: if self.r.chance(self.p.p_start_delay) { 2 * self.r.range(1, 3) } else { 0 },
            steps: start_steps,
            out: if self.r.chance(self.p.p_start_err) {
                Out::Err
            } else if self.r.chance(self.p.p_start_panic) {
                Out::Panic
            } else {
                Out::Ok
            },
        };
        let mut run = vec![];
        let len = self.r.range(self.p.run_len.0, self.p.run_len.1);
        for _ in 0..len {
            let out = if self.r.chance(self.p.p_run_err) {
                Out::Err
            } else if self.r.chance(self.p.p_run_false) {
                Out::False
            } else if self.r.chance(self.p.p_run_panic) {
                Out::Panic
            } else {
                Out::True
            };
            let mut segs = vec![];
            let nseg = if out == Out::True { self.r.range(1, 2) } else { self.r.range(0, 2) };
            for _ in 0..nseg {
                segs.push(2 * self.r.range(1, 4));
            }
            let mut steps = if self.r.chance(25) { self.hook_steps(a) } else { vec![] };
            if self.r.chance(30) {
                // leave on_run with the cooperative budget (nearly) used up: whatever the loop awaits next is a forced yield
                steps.push(Step::Coop(if self.r.chance(80) { 128 - self.r.below(6) } else { self.r.range(1, 300) }));
            }
            run.push(RunStep { segs, steps, out });
            if out != Out::True {
                break;
            }
        }
        let mut run_err_when_handled = None;
        if self.p.burst > 0 && self.r.chance(12) {
            // an on_run that keeps idling (Ok(true) every few ms) and fails as soon as it notices that enough messages were handled
            run = (0..6).map(|_| RunStep { segs: vec![2 * self.r.range(1, 4)], steps: vec![], out: Out::True }).collect();
            run_err_when_handled = Some(self.r.range(4, 30));
        }
        let stop_steps = if self.r.chance(20) { self.hook_steps(a) } else { vec![] };
        let stop = HookScript {
            delay: if self.r.chance(self.p.p_stop_delay) { 2 * self.r.range(1, 2) } else { 0 },
            steps: stop_steps.into_iter().filter(|s| !matches!(s, Step::KillSelf)).collect(),
            out: if self.r.chance(self.p.p_stop_err) {
                Out::Err
            } else if self.r.chance(self.p.p_stop_panic) {
                Out::Panic
            } else {
                Out::Ok
            },
        };
        ActorSpec {
            cap,
            start,
            run,
            stop,
            run_err_when_handled,
            in_peers: self.in_peers[a],
        }
    }
}

#[derive(Clone, Copy, PartialEq, Debug)]
enum SS {
    N,
    S(usize),
    W(usize),
}

pub fn generate(profile_name: &str, seed: u64) -> Scenario {
    if profile_name == "deadlock" {
        return generate_deadlock(seed);
    }
    if profile_name == "overlap" {
        let mut sc = generate_overlap(seed);
        sc.profile = "overlap".to_string();
        return sc;
    }
    if profile_name == "idle" && seed % 160 == 17 {
        return generate_marathon(seed);
    }
    if profile_name == "idle" && seed % 48 == 11 {
        return generate_selfowned(seed);
    }
    if (profile_name == "idle" || profile_name == "refs") && seed % 24 == 7 {
        let mut sc = generate_stopcancel(seed);
        sc.profile = profile_name.to_string();
        return sc;
    }
    if profile_name == "traffic" && seed % 24 == 13 {
        let mut sc = generate_callback(seed);
        sc.profile = profile_name.to_string();
        return sc;
    }
    if profile_name == "kill" && seed % 24 == 9 {
        let mut sc = generate_heldsend(seed);
        sc.profile = profile_name.to_string();
        return sc;
    }
    if (profile_name == "lifecycle" || profile_name == "kill") && seed % 16 == 5 {
        let mut sc = generate_pileup(seed);
        sc.profile = profile_name.to_string();
        return sc;
    }
    let p = profile(profile_name);
    let mut r = Rng::new(seed ^ crate::util::mix(0xABCD, profile_name.len() as u64 * 131 + profile_name.as_bytes()[0] as u64));
    let n = r.range(p.actors.0, p.actors.1) as usize;
    let ngates = 1 + r.below(2) as usize;
    let in_peers: Vec<bool> = (0..n).map(|_| r.chance(p.p_in_peers)).collect();
    let mut g = G {
        r,
        uid: 0,
        p: p.clone(),
        n,
        ngates,
        in_peers,
    };
    let tell_only: Vec<bool> = (0..n).map(|_| g.r.chance(p.p_tell_only)).collect();
    let mut actors = vec![];
    for a in 0..n {
        actors.push(g.actor(a));
    }
    if profile_name == "faults" {
        // exactly one victim: inject a panic (or error) at one hook invocation
        let v = g.r.below(n as u64) as usize;
        match g.r.below(6) {
            0 => actors[v].start.out = if g.r.chance(70) { Out::Panic } else { Out::Err },
            1 => actors[v].stop.out = if g.r.chance(70) { Out::Panic } else { Out::Err },
            2 => {
                let k = g.r.range(1, 3) as usize;
                let mut run = vec![];
                for i in 0..k {
                    let last = i + 1 == k;
                    run.push(RunStep {
                        segs: vec![2 * g.r.range(1, 3)],
                        steps: vec![],
                        out: if last {
                            if g.r.chance(70) {
                                Out::Panic
                            } else {
                                Out::Err
                            }
                        } else {
                            Out::True
                        },
                    });
                }
                actors[v].run = run;
            }
            _ => { /* handler panic injected below into the k-th message to v */ }
        }
        actors[v].in_peers = true;
        g.in_peers[v] = true;
        // remember victim via a marker: the k-th client message to v gets a Panic step (done after clients are generated)
        let mut sc = finish(&mut g, profile_name, seed, actors, &tell_only);
        let hp = !(sc.actors[v].start.out != Out::Ok
            || sc.actors[v].stop.out != Out::Ok
            || sc.actors[v].run.iter().any(|r| matches!(r.out, Out::Panic | Out::Err)));
        if hp {
            let k = g.r.range(1, 3);
            let mut seen = 0;
            'outer: for c in sc.clients.iter_mut() {
                // which actor does a slot refer to when an op runs? (slots are re-assigned by clone/downgrade/upgrade ops; a
                // message must not be given an in-handler ask aimed at the very actor it ends up being sent to)
                let mut cur: Vec<Option<usize>> = c.init.clone();
                for op in c.ops.iter_mut() {
                    match &op.op {
                        Op::CloneSlot { from, to } | Op::Downgrade { from, to } | Op::Upgrade { from, to } => {
                            let x = cur.get(*from).copied().flatten();
                            if let Some(c) = cur.get_mut(*to) {
                                *c = x;
                            }
                        }
                        Op::DropSlot { slot } => {
                            if let Some(c) = cur.get_mut(*slot) {
                                *c = None;
                            }
                        }
                        _ => {}
                    }
                    if let Op::Send { slot, body, .. } = &mut op.op {
                        if cur.get(*slot).copied().flatten() == Some(v) {
                            seen += 1;
                            if seen == k {
                                let pos = g.r.below(body.steps.len() as u64 + 1) as usize;
                                let down: Vec<usize> = (v + 1..n).collect();
                                if !down.is_empty() && g.r.chance(25) {
                                    let t = *g.r.pick(&down);
                                    let uid = g.uid();
                                    body.steps.insert(pos, Step::JoinAskPanic { target: t, body: Body::plain(uid) });
                                } else {
                                    body.steps.insert(pos, Step::Panic);
                                }
                                break 'outer;
                            }
                        }
                    }
                }
            }
        }
        return sc;
    }
    finish(&mut g, profile_name, seed, actors, &tell_only)
}

fn finish(g: &mut G, profile_name: &str, seed: u64, mut actors: Vec<ActorSpec>, tell_only: &[bool]) -> Scenario {
    let p = g.p.clone();
    let n = g.n;
    let mut clients = vec![];
    let nclients = g.r.range(p.clients.0, p.clients.1) as usize;
    // optional gated first message: client 0 first tells a gated message to actor 0 so the mailbox backs up
    let gated_first = g.r.chance(p.first_gated);
    for c in 0..nclients {
        let nslots = 4usize;
        let mut st = vec![SS::N; nslots];
        let mut init = vec![None; nslots];
        let filled = 1 + g.r.below(2) as usize;
        for s in 0..filled {
            let a = if c == 0 && s == 0 { 0 } else { g.r.below(n as u64) as usize };
            init[s] = Some(a);
            st[s] = SS::S(a);
        }
        let mut ops = vec![];
        if c == 0 && gated_first {
            let uid = g.uid();
            ops.push(ClientOp {
                pre: Pre::None,
                op: Op::Send {
                    slot: 0,
                    kind: SendKind::Tell,
                    mty: MTy::U,
                    body: Body {
                        uid,
                        flags: 0,
                        steps: vec![Step::Gate(0)],
                    },
                },
            });
        }
        let nops = g.r.range(p.ops.0, p.ops.1);
        for _ in 0..nops {
            let pre = match g.r.below(50) {
                0..=19 => Pre::None,
                20..=29 => Pre::Yield,
                // the caller has used up (nearly) all of its cooperative budget when it makes the call
                48 | 49 => Pre::Coop(*g.r.pick(&[128u64, 128, 128, 127, 129, 64])),
                _ => Pre::Sleep(2 * g.r.range(1, 4)),
            };
            let strong: Vec<usize> = (0..nslots).filter(|s| matches!(st[*s], SS::S(_))).collect();
            let weak: Vec<usize> = (0..nslots).filter(|s| matches!(st[*s], SS::W(_))).collect();
            let k = g.r.weighted(&p.w_op);
            let op = match k {
                0..=4 if !strong.is_empty() => {
                    let slot = *g.r.pick(&strong);
                    let a = match st[slot] {
                        SS::S(a) => a,
                        _ => 0,
                    };
                    let mut kind = match k {
                        0 => SendKind::Tell,
                        1 => SendKind::TellTo(g.timeout()),
                        2 => SendKind::Ask,
                        3 => SendKind::AskTo(g.timeout()),
                        _ => SendKind::AskJoin,
                    };
                    if tell_only[a] {
                        kind = match kind {
                            SendKind::Ask | SendKind::AskJoin => SendKind::Tell,
                            SendKind::AskTo(t) => SendKind::TellTo(t),
                            k => k,
                        };
                    }
                    let mty = match kind {
                        SendKind::AskJoin => MTy::J,
                        SendKind::AskTo(_) => g.mty(false),
                        _ => g.mty(true),
                    };
                    let uid = g.uid();
                    let steps = g.msg_steps(a);
                    let mut flags = 0;
                    if mty == MTy::U && p.p_hpanic > 0 && g.r.chance(p.p_hpanic) {
                        // a panic raised by the message's on_tell_result (after the handler has returned) is a panic of the actor
                        flags |= F_TRPANIC;
                    }
                    if mty == MTy::N && g.r.chance(20) {
                        flags |= F_EAGER;
                    }
                    if mty == MTy::J {
                        match g.r.below(6) {
                            0 => flags |= F_JPANIC,
                            1 => flags |= F_JABORT,
                            _ => {}
                        }
                    }
                    let mut reps = 1;
                    if p.burst > 0 && g.r.chance(10) {
                        // also backlogs deeper than tokio's cooperative budget (128) in mailboxes that can hold them
                        reps = *g.r.pick(&[p.burst, p.burst, p.burst, 40, 40, 70, 70, 150, 260]);
                    }
                    if reps > 1 {
                        // a burst of identical-shape tells (distinct uids) to exercise queued-message priority
                        for _ in 0..reps - 1 {
                            let uid2 = g.uid();
                            ops.push(ClientOp {
                                pre: Pre::None,
                                op: Op::Send {
                                    slot,
                                    kind: SendKind::Tell,
                                    mty: MTy::U,
                                    body: Body::plain(uid2),
                                },
                            });
                        }
                    }
                    if g.r.chance(6) && !matches!(kind, SendKind::AskJoin) {
                        let defer = match g.r.below(4) {
                            0 => 0,
                            1 => 1,
                            _ => 2 * g.r.range(1, 3),
                        };
                        Op::SendDeferred {
                            slot,
                            kind,
                            body: Body { uid, flags: 0, steps },
                            defer,
                        }
                    } else {
                        Op::Send {
                            slot,
                            kind,
                            mty,
                            body: Body { uid, flags, steps },
                        }
                    }
                }
                5 if !strong.is_empty() => {
                    let slot = *g.r.pick(&strong);
                    if g.r.chance(30) {
                        Op::StopTo { slot, ms: g.timeout() }
                    } else if g.r.chance(25) {
                        // mostly the no-op form: a stop future that is never polled
                        Op::StopDeferred { slot, defer: [0, 0, 3, 3, 1, 2, 4][g.r.below(7) as usize] }
                    } else {
                        Op::Stop { slot }
                    }
                }
                6 if !strong.is_empty() => Op::Kill {
                    slot: *g.r.pick(&strong),
                },
                7 if !strong.is_empty() || !weak.is_empty() => {
                    let all: Vec<usize> = strong.iter().chain(weak.iter()).cloned().collect();
                    let from = *g.r.pick(&all);
                    let to = g.r.below(nslots as u64) as usize;
                    if to != from {
                        st[to] = st[from];
                    }
                    if to == from {
                        Op::ProbeIdent { slot: from }
                    } else {
                        Op::CloneSlot { from, to }
                    }
                }
                8 if !strong.is_empty() || !weak.is_empty() => {
                    let all: Vec<usize> = strong.iter().chain(weak.iter()).cloned().collect();
                    let slot = *g.r.pick(&all);
                    st[slot] = SS::N;
                    Op::DropSlot { slot }
                }
                9 if !strong.is_empty() => {
                    let from = *g.r.pick(&strong);
                    let to = g.r.below(nslots as u64) as usize;
                    if to == from {
                        Op::ProbeAlive { slot: from }
                    } else {
                        if let SS::S(a) = st[from] {
                            st[to] = SS::W(a);
                        }
                        Op::Downgrade { from, to }
                    }
                }
                10 if !weak.is_empty() => {
                    let from = *g.r.pick(&weak);
                    let to = g.r.below(nslots as u64) as usize;
                    if to == from {
                        Op::ProbeAlive { slot: from }
                    } else {
                        // optimistic: assume success; a failed upgrade leaves `to` as it was and later ops on it are skipped or hit the old content
                        if let SS::W(a) = st[from] {
                            st[to] = SS::S(a);
                        }
                        Op::Upgrade { from, to }
                    }
                }
                11 => {
                    let all: Vec<usize> = strong.iter().chain(weak.iter()).cloned().collect();
                    if all.is_empty() {
                        Op::OpenGate(0)
                    } else {
                        Op::ProbeAlive { slot: *g.r.pick(&all) }
                    }
                }
                12 => {
                    let all: Vec<usize> = strong.iter().chain(weak.iter()).cloned().collect();
                    if all.is_empty() {
                        Op::OpenGate(0)
                    } else {
                        Op::ProbeIdent { slot: *g.r.pick(&all) }
                    }
                }
                _ => Op::OpenGate(g.r.below(g.ngates as u64) as usize),
            };
            ops.push(ClientOp { pre, op });
        }
        clients.push(ClientSpec {
            init,
            ops,
            drop_at_end: g.r.chance(p.p_drop_at_end),
        });
    }
    if profile_name == "refs" && g.r.chance(30) {
        // "orphan" shape: the only things keeping the actor alive are queued envelopes / a queued stop marker
        // while it sits in a gated handler; every client drops its handles right after its last call.
        for a in actors.iter_mut() {
            a.in_peers = false;
        }
        for c in clients.iter_mut() {
            c.drop_at_end = true;
            c.ops.retain(|o| !matches!(o.op, Op::OpenGate(_)));
            for o in c.ops.iter_mut() {
                if let Pre::Sleep(x) = o.pre {
                    o.pre = Pre::Sleep(x.min(4));
                }
            }
        }
        if !gated_first {
            if let Some(c0) = clients.first_mut() {
                let uid = g.uid();
                c0.ops.insert(
                    0,
                    ClientOp {
                        pre: Pre::None,
                        op: Op::Send {
                            slot: 0,
                            kind: SendKind::Tell,
                            mty: MTy::U,
                            body: Body {
                                uid,
                                flags: 0,
                                steps: vec![Step::Gate(0)],
                            },
                        },
                    },
                );
            }
        }
        if g.r.chance(60) {
            if let Some(c) = clients.last_mut() {
                let strong: Vec<usize> = c.init.iter().enumerate().filter(|(_, a)| a.is_some()).map(|(i, _)| i).collect();
                if let Some(slot) = strong.first() {
                    c.ops.push(ClientOp {
                        pre: Pre::Sleep(2),
                        op: Op::Stop { slot: *slot },
                    });
                }
            }
        }
        if g.r.chance(50) {
            // one more client: its ask is queued behind the gated handler and given up (timeout); it keeps only a weak handle
            // and upgrades it much later, when the queued envelopes are all that is left of the actor's strong references
            let a = g.r.below(n as u64) as usize;
            let uid = g.uid();
            let kind = if g.r.chance(70) { SendKind::AskTo(2) } else { SendKind::TellTo(2) };
            let ops = vec![
                ClientOp { pre: Pre::Sleep(2), op: Op::Send { slot: 0, kind, mty: MTy::U, body: Body::plain(uid) } },
                ClientOp { pre: Pre::None, op: Op::Downgrade { from: 0, to: 1 } },
                ClientOp { pre: Pre::None, op: Op::DropSlot { slot: 0 } },
                ClientOp { pre: Pre::Sleep(2 * g.r.range(12, 16)), op: Op::Upgrade { from: 1, to: 2 } },
                ClientOp { pre: Pre::None, op: Op::ProbeAlive { slot: 1 } },
                ClientOp { pre: Pre::None, op: Op::DropSlot { slot: 2 } },
            ];
            let mut init = vec![None; clients.first().map(|c| c.init.len()).unwrap_or(4).max(3)];
            init[0] = Some(a);
            clients.push(ClientSpec { init, ops, drop_at_end: true });
        }
    }
    if profile_name == "refs" && g.r.chance(25) {
        // "closer" shape: nothing is gated, everybody drops their handles early; then one task holding the last
        // strong handle does `tell-or-stop; drop; upgrade` without yielding in between.
        fn strip(steps: &mut Vec<Step>) {
            steps.retain(|s| !matches!(s, Step::Gate(_) | Step::HoldRef(_)));
            for s in steps.iter_mut() {
                if let Step::Peer { body, .. } | Step::SelectAsk { body, .. } | Step::DetachedAsk { body, .. } = s {
                    strip(&mut body.steps);
                }
                if let Step::JoinAsk { b1, b2, .. } = s {
                    strip(&mut b1.steps);
                    strip(&mut b2.steps);
                }
            }
        }
        for a in actors.iter_mut() {
            a.in_peers = false;
        }
        for c in clients.iter_mut() {
            c.drop_at_end = true;
            c.ops.retain(|o| !matches!(o.op, Op::OpenGate(_)));
            for o in c.ops.iter_mut() {
                if let Pre::Sleep(x) = o.pre {
                    o.pre = Pre::Sleep(x.min(2));
                }
                if let Op::Send { body, .. } = &mut o.op {
                    strip(&mut body.steps);
                }
            }
        }
        let a = g.r.below(n as u64) as usize;
        let uid = g.uid();
        let uid2 = g.uid();
        let last = if g.r.chance(40) {
            Op::Stop { slot: 0 }
        } else if g.r.chance(40) {
            // an ask that is enqueued and given up in the same poll (zero timeout): its envelope is then the only thing that
            // refers to the actor
            Op::Send { slot: 0, kind: SendKind::AskTo(0), mty: MTy::U, body: Body::plain(uid) }
        } else {
            Op::Send {
                slot: 0,
                kind: SendKind::Tell,
                mty: MTy::U,
                body: Body {
                    uid,
                    flags: 0,
                    steps: if g.r.chance(50) { vec![Step::Sleep(2)] } else { vec![] },
                },
            }
        };
        let ops = vec![
            ClientOp { pre: Pre::None, op: Op::Downgrade { from: 0, to: 3 } },
            ClientOp { pre: Pre::Sleep(2 * g.r.range(8, 20)), op: last },
            ClientOp { pre: Pre::None, op: Op::DropSlot { slot: 0 } },
            ClientOp { pre: if g.r.chance(70) { Pre::None } else { Pre::Yield }, op: Op::Upgrade { from: 3, to: 2 } },
            ClientOp { pre: Pre::None, op: Op::ProbeIdent { slot: 2 } },
            ClientOp {
                pre: Pre::Sleep(2),
                op: Op::Send { slot: 2, kind: SendKind::Ask, mty: MTy::U, body: Body::plain(uid2) },
            },
        ];
        clients.push(ClientSpec {
            init: vec![Some(a), None, None, None],
            ops,
            drop_at_end: true,
        });
    }
    let teardown = (0..n)
        .map(|_| match g.r.below(3) {
            0 => Teardown::Stop,
            1 => Teardown::Kill,
            _ => Teardown::DropAll,
        })
        .collect();
    Scenario {
        seed,
        pert: 0,
        profile: profile_name.to_string(),
        actors,
        clients,
        ngates: g.ngates,
        teardown,
        sample_until: p.sample_until,
        default_cap: 32,
        fixed_timing: false,
    }
}

/// Deadlock profile: ask chains over arbitrary (possibly cyclic) topologies.
/// "overlap" shape: histories that are acyclic in time although a hook has two asks in flight at once, or dies by a
/// panic while an ask is in flight; later the former callee asks back. (Concurrent asks inside arbitrary cyclic
/// topologies are never generated: the graph keeps one edge per caller, so such cycles are documented as undetectable
/// and would deadlock the workload itself.)
fn generate_overlap(seed: u64) -> Scenario {
    let mut r = Rng::new(seed ^ 0x0E71A9);
    let mut uid = 0u64;
    let mut nu = || {
        uid += 1;
        uid
    };
    let plain = |u: u64, ms: u64| Body { uid: u, flags: 0, steps: if ms > 0 { vec![Step::Sleep(ms)] } else { vec![] } };
    let spec = || ActorSpec {
        cap: Some(16),
        start: HookScript::default(),
        run: vec![],
        stop: HookScript::default(),
        run_err_when_handled: None,
        in_peers: true,
    };
    let actors = vec![spec(), spec(), spec()];
    let d_b = 2 * r.range(0, 3);
    let d_c = 2 * r.range(3, 8);
    let to = 2 * r.range(1, 3);
    let first = match r.below(10) {
        0..=3 => Step::JoinAskTo { t1: 1, b1: plain(nu(), d_b), t2: 2, b2: plain(nu(), d_c), ms: to },
        4 | 5 => Step::JoinAskPanic { target: 1, body: plain(nu(), 2 * r.range(1, 4)) },
        // a sequential ask that is given up (timeout / select!) while the callee is still busy with it
        6 | 7 => Step::Peer { target: 1, kind: SendKind::AskTo(to), mty: MTy::U, body: plain(nu(), d_c) },
        _ => Step::SelectAsk { target: 1, ms: to, body: plain(nu(), d_c) },
    };
    if r.chance(35) {
        // "busy callee": B is inside a handler that will ask A later; meanwhile A's ask to B queues behind it and is given up
        // (timeout or select!) well before B asks. Nobody waits for anybody when B finally asks A.
        let give_up = 2 * r.range(1, 2);
        let m0 = Body {
            uid: nu(),
            flags: 0,
            steps: vec![Step::Sleep(2 * r.range(5, 8)), Step::Peer { target: 0, kind: SendKind::Ask, mty: MTy::U, body: plain(nu(), 0) }],
        };
        let abandoned = if r.chance(50) {
            Step::Peer { target: 1, kind: SendKind::AskTo(give_up), mty: MTy::U, body: plain(nu(), 0) }
        } else {
            Step::SelectAsk { target: 1, ms: give_up, body: plain(nu(), 0) }
        };
        let m1 = Body { uid: nu(), flags: 0, steps: vec![abandoned] };
        let clients = vec![
            ClientSpec { init: vec![Some(1), None, None, None], ops: vec![ClientOp { pre: Pre::None, op: Op::Send { slot: 0, kind: SendKind::Tell, mty: MTy::U, body: m0 } }], drop_at_end: true },
            ClientSpec { init: vec![Some(0), None, None, None], ops: vec![ClientOp { pre: Pre::Sleep(2), op: Op::Send { slot: 0, kind: SendKind::Ask, mty: MTy::U, body: m1 } }], drop_at_end: true },
        ];
        return Scenario {
            seed,
            pert: 0,
            profile: "deadlock".to_string(),
            actors,
            clients,
            ngates: 1,
            teardown: vec![Teardown::Stop, Teardown::Stop, Teardown::Kill],
            sample_until: 61,
            default_cap: 32,
            fixed_timing: true,
        };
    }
    if r.chance(15) {
        // "diamond": one hook of A has two asks in flight (to B and to C), and both B and C are waiting for the same busy D.
        // Meanwhile X - unrelated - asks A. Branches that converge are not a cycle: X simply waits until A is done.
        let d_busy = 2 * r.range(6, 9);
        let to_d = |u: u64, u2: u64| Body { uid: u, flags: 0, steps: vec![Step::Peer { target: 3, kind: SendKind::Ask, mty: MTy::U, body: plain(u2, 0) }] };
        let hold = Body { uid: nu(), flags: 0, steps: vec![Step::Sleep(d_busy)] };
        let (b1, b1i, b2, b2i) = (nu(), nu(), nu(), nu());
        let m_a = Body { uid: nu(), flags: 0, steps: vec![Step::JoinAsk { t1: 1, b1: to_d(b1, b1i), t2: 2, b2: to_d(b2, b2i) }] };
        let m_x = Body { uid: nu(), flags: 0, steps: vec![Step::Peer { target: 0, kind: SendKind::Ask, mty: MTy::U, body: plain(nu(), 0) }] };
        let actors = vec![spec(), spec(), spec(), spec(), spec()];
        let one = |a: usize, pre: Pre, kind: SendKind, body: Body| ClientSpec { init: vec![Some(a), None, None, None], ops: vec![ClientOp { pre, op: Op::Send { slot: 0, kind, mty: MTy::U, body } }], drop_at_end: true };
        let clients = vec![
            one(3, Pre::None, SendKind::Tell, hold),
            one(0, Pre::Sleep(2), SendKind::Ask, m_a),
            one(4, Pre::Sleep(4), SendKind::Ask, m_x),
        ];
        return Scenario {
            seed,
            pert: 0,
            profile: "deadlock".to_string(),
            actors,
            clients,
            ngates: 1,
            teardown: vec![Teardown::Stop, Teardown::Stop, Teardown::Kill, Teardown::Stop, Teardown::Stop],
            sample_until: 61,
            default_cap: 32,
            fixed_timing: true,
        };
    }
    if r.chance(20) {
        // "joining asker": A's handler ask_joins B. B answers at once with the JoinHandle of a task that runs for 8 ms; while A
        // is still waiting for that task (not for B any more - its ask has been answered), B's next handler asks A. Nobody
        // waits for anybody in a cycle: B's ask simply queues until A's handler is done.
        let mut ju = nu();
        while ju % 4 != 3 {
            ju = nu();
        }
        let m1 = Body { uid: nu(), flags: 0, steps: vec![Step::Peer { target: 1, kind: SendKind::AskJoin, mty: MTy::J, body: plain(ju, 0) }] };
        let back = Body { uid: nu(), flags: 0, steps: vec![Step::Peer { target: 0, kind: SendKind::Ask, mty: MTy::U, body: plain(nu(), 0) }] };
        let clients = vec![
            ClientSpec { init: vec![Some(0), None, None, None], ops: vec![ClientOp { pre: Pre::None, op: Op::Send { slot: 0, kind: if r.chance(50) { SendKind::Tell } else { SendKind::Ask }, mty: MTy::U, body: m1 } }], drop_at_end: true },
            ClientSpec { init: vec![Some(1), None, None, None], ops: vec![ClientOp { pre: Pre::Sleep(2 + 2 * r.below(2)), op: Op::Send { slot: 0, kind: SendKind::Ask, mty: MTy::U, body: back } }], drop_at_end: true },
        ];
        return Scenario {
            seed,
            pert: 0,
            profile: "deadlock".to_string(),
            actors,
            clients,
            ngates: 1,
            teardown: vec![Teardown::Stop, Teardown::Stop, Teardown::Kill],
            sample_until: 61,
            default_cap: 32,
            fixed_timing: true,
        };
    }
    let m1 = Body { uid: nu(), flags: 0, steps: vec![first] };
    let back = Body { uid: nu(), flags: 0, steps: vec![Step::Peer { target: 0, kind: if r.chance(70) { SendKind::Ask } else { SendKind::AskTo(2 * r.range(1, 5)) }, mty: MTy::U, body: plain(nu(), 2 * r.below(3)) }] };
    let clients = vec![
        ClientSpec {
            init: vec![Some(0), None, None, None],
            ops: vec![ClientOp { pre: Pre::Sleep(2 * r.below(3)), op: Op::Send { slot: 0, kind: if r.chance(50) { SendKind::Tell } else { SendKind::Ask }, mty: MTy::U, body: m1 } }],
            drop_at_end: true,
        },
        ClientSpec {
            init: vec![Some(1), None, None, None],
            ops: vec![ClientOp { pre: Pre::Sleep(30 + 2 * r.below(10)), op: Op::Send { slot: 0, kind: SendKind::Ask, mty: MTy::U, body: back } }],
            drop_at_end: true,
        },
    ];
    Scenario {
        seed,
        pert: 0,
        profile: "deadlock".to_string(),
        actors,
        clients,
        ngates: 1,
        teardown: vec![Teardown::Stop, Teardown::Stop, Teardown::Kill],
        sample_until: 61,
        default_cap: 32,
        fixed_timing: true,
    }
}

/// An actor that owns the only strong reference to itself (kept in its state since on_start) and whose on_run lets go of it and
/// returns an outcome in the same poll: Err (=> Failed(OnRun) after on_stop(false)), Ok(false) (=> ends because unreferenced),
/// or Ok(true) (same). Two reasons to end become true in one poll; the hook's own outcome must not get lost.
fn generate_selfowned(seed: u64) -> Scenario {
    let mut r = Rng::new(seed ^ 0x5E1F);
    let out = *r.pick(&[Out::Err, Out::Err, Out::False, Out::True]);
    let actor = ActorSpec {
        cap: Some(4),
        start: HookScript { delay: 0, steps: vec![Step::HoldSelf], out: Out::Ok },
        run: vec![
            RunStep { segs: vec![2 * r.range(1, 3)], steps: vec![], out: Out::True },
            RunStep { segs: vec![2 * r.range(2, 5)], steps: vec![Step::DropHeld(0)], out },
        ],
        stop: HookScript { delay: if r.chance(30) { 2 } else { 0 }, steps: vec![], out: Out::Ok },
        run_err_when_handled: None,
        in_peers: false,
    };
    let mut ops = vec![];
    if r.chance(50) {
        ops.push(ClientOp { pre: Pre::None, op: Op::Send { slot: 0, kind: SendKind::Ask, mty: MTy::U, body: Body::plain(1) } });
    }
    ops.push(ClientOp { pre: Pre::None, op: Op::DropSlot { slot: 0 } });
    Scenario {
        seed,
        pert: 0,
        profile: "idle".to_string(),
        actors: vec![actor],
        clients: vec![ClientSpec { init: vec![Some(0), None, None, None], ops, drop_at_end: true }],
        ngates: 1,
        teardown: vec![Teardown::DropAll],
        sample_until: 31,
        default_cap: 32,
        fixed_timing: false,
    }
}

/// Several reasons to end pile up while the actor cannot look at its channels (it is still inside a slow on_start, or parked in
/// a gated handler): stop, kill, the last reference going away, a queued message whose handler panics, ordinary messages - in
/// every order, all issued at one instant. Whatever happens next must be one of the outcomes each single cause allows.
/// A stop() that requests nothing: its future is given up while it is still waiting for room in a full mailbox (a timeout
/// around it expires), or is dropped without ever being polled. The actor is used afterwards as if nothing had happened: its
/// on_run goes on idling, messages are served, and a later stop() - or the teardown - ends it.
fn generate_stopcancel(seed: u64) -> Scenario {
    let mut r = Rng::new(seed ^ 0x57CA);
    let cap = *r.pick(&[1usize, 1, 2, 3]);
    let mut uid = 0u64;
    let mut nu = || {
        uid += 1;
        uid
    };
    let mut ops = vec![];
    ops.push(ClientOp { pre: Pre::None, op: Op::CloneSlot { from: 0, to: 1 } });
    ops.push(ClientOp { pre: if r.chance(50) { Pre::Sleep(2 * r.range(1, 2)) } else { Pre::None }, op: Op::Send { slot: 0, kind: SendKind::Tell, mty: MTy::U, body: Body { uid: nu(), flags: 0, steps: vec![Step::Gate(0)] } } });
    for i in 0..cap {
        ops.push(ClientOp { pre: if i == 0 { Pre::Sleep(2) } else { Pre::None }, op: Op::Send { slot: 0, kind: SendKind::Tell, mty: MTy::U, body: Body::plain(nu()) } });
    }
    // the stop attempts that come to nothing
    let n_attempts = 1 + r.below(2);
    for _ in 0..n_attempts {
        let slot = r.below(2) as usize;
        ops.push(ClientOp { pre: Pre::None, op: if r.chance(70) { Op::StopTo { slot, ms: 2 * r.range(1, 2) } } else { Op::StopDeferred { slot, defer: 0 } } });
    }
    ops.push(ClientOp { pre: Pre::Sleep(2), op: Op::OpenGate(0) });
    // life goes on
    let n_after = 1 + r.below(4);
    for _ in 0..n_after {
        let kind = *r.pick(&[SendKind::Ask, SendKind::Tell, SendKind::AskTo(20)]);
        ops.push(ClientOp { pre: Pre::Sleep(2 * r.range(1, 4)), op: Op::Send { slot: r.below(2) as usize, kind, mty: MTy::U, body: Body::plain(nu()) } });
    }
    ops.push(ClientOp { pre: Pre::Sleep(2 * r.range(2, 5)), op: Op::ProbeAlive { slot: 0 } });
    if r.chance(50) {
        ops.push(ClientOp { pre: Pre::Sleep(2), op: Op::Stop { slot: r.below(2) as usize } });
    }
    let nrun = 8 + r.below(8);
    let actor = ActorSpec {
        cap: Some(cap),
        start: HookScript::default(),
        run: (0..nrun).map(|_| RunStep { segs: vec![2 * r.range(1, 2)], steps: vec![], out: Out::True }).collect(),
        stop: HookScript { delay: if r.chance(30) { 2 } else { 0 }, steps: vec![], out: Out::Ok },
        run_err_when_handled: None,
        in_peers: false,
    };
    Scenario {
        seed,
        pert: 0,
        profile: "idle".to_string(),
        actors: vec![actor],
        clients: vec![ClientSpec { init: vec![Some(0), None, None, None], ops, drop_at_end: r.chance(50) }],
        ngates: 1,
        teardown: vec![*r.pick(&[Teardown::Stop, Teardown::Kill, Teardown::DropAll])],
        sample_until: 41,
        default_cap: 32,
        fixed_timing: true,
    }
}

/// A sender parked on a full mailbox is handed the slot the actor frees - but its task is busy elsewhere and does not poll
/// the send again for a while. Then the actor is killed (or stopped, or orphaned). The reserved slot belongs to nobody the
/// actor has to wait for: kill() takes effect at once.
/// Callbacks: a requester (actor 1) asks a worker (actor 0); while serving that request the worker TELLS the requester -
/// progress reports, and perhaps a final stop() - from inside its handler. The requester is suspended in its ask on the worker
/// all the while. Tells are tells: accepted in program order, ahead of whatever the same sender (or anybody) does afterwards.
fn generate_callback(seed: u64) -> Scenario {
    let mut r = Rng::new(seed ^ 0xCA11);
    let mut uid = 0u64;
    let mut nu = || {
        uid += 1;
        uid
    };
    let plain = |u: u64| Body::plain(u);
    let nrep = 1 + r.below(3);
    let mut wsteps: Vec<Step> = vec![];
    if r.chance(40) {
        wsteps.push(Step::Sleep(2));
    }
    for _ in 0..nrep {
        wsteps.push(Step::Peer { target: 1, kind: if r.chance(80) { SendKind::Tell } else { SendKind::TellTo(20) }, mty: MTy::U, body: plain(nu()) });
        if r.chance(25) {
            wsteps.push(Step::Yield);
        }
    }
    let stops = r.chance(50);
    if stops {
        wsteps.push(Step::StopPeer(1));
    }
    let work = Body { uid: nu(), flags: 0, steps: wsteps };
    let request = Body { uid: nu(), flags: 0, steps: vec![Step::Peer { target: 0, kind: if r.chance(70) { SendKind::Ask } else { SendKind::AskTo(40) }, mty: MTy::U, body: work }] };
    let spec = |cap: usize| ActorSpec { cap: Some(cap), start: HookScript::default(), run: vec![], stop: HookScript::default(), run_err_when_handled: None, in_peers: true };
    // the requester does not drain its mailbox while it waits for the worker: room for every report, the stop marker and the
    // third party's messages, or the worker's tell and the requester's ask would wait for each other (a deadlock made of a
    // tell, which nothing detects and nothing promises to)
    let actors = vec![spec(*r.pick(&[2usize, 4, 16])), spec(*r.pick(&[8usize, 16, 32]))];
    let mut clients = vec![ClientSpec {
        init: vec![Some(1), None, None, None],
        ops: vec![ClientOp { pre: Pre::Sleep(2 * r.below(2)), op: Op::Send { slot: 0, kind: if r.chance(50) { SendKind::Ask } else { SendKind::Tell }, mty: MTy::U, body: request } }],
        drop_at_end: true,
    }];
    // somebody else talks to the requester at the same time
    let mut ops = vec![];
    for i in 0..(1 + r.below(3)) {
        ops.push(ClientOp { pre: if i == 0 { Pre::Sleep(2 * r.below(3)) } else if r.chance(50) { Pre::Yield } else { Pre::None }, op: Op::Send { slot: 0, kind: SendKind::Tell, mty: MTy::U, body: plain(nu()) } });
    }
    clients.push(ClientSpec { init: vec![Some(1), None, None, None], ops, drop_at_end: true });
    Scenario {
        seed,
        pert: 0,
        profile: "traffic".to_string(),
        actors,
        clients,
        ngates: 1,
        teardown: vec![Teardown::Stop, if stops { Teardown::DropAll } else { Teardown::Stop }],
        sample_until: 41,
        default_cap: 32,
        fixed_timing: false,
    }
}

fn generate_heldsend(seed: u64) -> Scenario {
    let mut r = Rng::new(seed ^ 0x4E1D);
    let cap = *r.pick(&[1usize, 1, 2]);
    let mut uid = 0u64;
    let mut nu = || {
        uid += 1;
        uid
    };
    let mut ops0 = vec![];
    ops0.push(ClientOp { pre: Pre::None, op: Op::CloneSlot { from: 0, to: 1 } });
    ops0.push(ClientOp { pre: Pre::None, op: Op::Send { slot: 0, kind: SendKind::Tell, mty: MTy::U, body: Body { uid: nu(), flags: 0, steps: vec![Step::Gate(0)] } } });
    for i in 0..cap {
        ops0.push(ClientOp { pre: if i == 0 { Pre::Sleep(2) } else { Pre::None }, op: Op::Send { slot: 0, kind: SendKind::Tell, mty: MTy::U, body: Body::plain(nu()) } });
    }
    let hold = 2 * r.range(8, 14);
    ops0.push(ClientOp { pre: Pre::None, op: Op::SendHeld { slot: 1, kind: if r.chance(70) { SendKind::Tell } else { SendKind::Ask }, body: Body::plain(nu()), hold } });
    // the other client: lets the handler finish (the actor takes the next message and frees a slot), then ends the actor
    let mut ops1 = vec![ClientOp { pre: Pre::Sleep(2 * r.range(2, 3)), op: Op::OpenGate(0) }];
    let ender = match r.below(5) {
        0 => Op::Stop { slot: 0 },
        _ => Op::Kill { slot: 0 },
    };
    ops1.push(ClientOp { pre: if r.chance(50) { Pre::Sleep(2) } else { Pre::None }, op: ender });
    if r.chance(40) {
        ops1.push(ClientOp { pre: Pre::None, op: Op::Kill { slot: 0 } });
    }
    ops1.push(ClientOp { pre: Pre::Sleep(2), op: Op::ProbeAlive { slot: 0 } });
    let actor = ActorSpec {
        cap: Some(cap),
        start: HookScript::default(),
        run: if r.chance(40) { vec![RunStep { segs: vec![2 * r.range(1, 3)], steps: vec![], out: Out::True }; 4] } else { vec![] },
        stop: HookScript { delay: if r.chance(40) { 2 } else { 0 }, steps: vec![], out: Out::Ok },
        run_err_when_handled: None,
        in_peers: false,
    };
    Scenario {
        seed,
        pert: 0,
        profile: "kill".to_string(),
        actors: vec![actor],
        clients: vec![
            ClientSpec { init: vec![Some(0), None, None, None], ops: ops0, drop_at_end: r.chance(50) },
            ClientSpec { init: vec![Some(0), None, None, None], ops: ops1, drop_at_end: r.chance(50) },
        ],
        ngates: 1,
        teardown: vec![*r.pick(&[Teardown::Stop, Teardown::Kill, Teardown::DropAll])],
        sample_until: 41,
        default_cap: 32,
        fixed_timing: true,
    }
}

fn generate_pileup(seed: u64) -> Scenario {
    let mut r = Rng::new(seed ^ 0x911E);
    let in_start = r.chance(50);
    let mut uid = 0u64;
    let mut nu = || {
        uid += 1;
        uid
    };
    let mut ops = vec![];
    if !in_start {
        ops.push(ClientOp { pre: Pre::None, op: Op::Send { slot: 0, kind: SendKind::Tell, mty: MTy::U, body: Body { uid: nu(), flags: 0, steps: vec![Step::Gate(0)] } } });
        ops.push(ClientOp { pre: Pre::Sleep(2), op: Op::CloneSlot { from: 0, to: 1 } });
    } else {
        ops.push(ClientOp { pre: Pre::None, op: Op::CloneSlot { from: 0, to: 1 } });
    }
    // the pile: a random selection in random order, all at the same instant
    let mut pile: Vec<Op> = vec![];
    let menu = 2 + r.below(4);
    for _ in 0..menu {
        pile.push(match r.below(8) {
            0 => Op::Kill { slot: 0 },
            1 => Op::StopTo { slot: 0, ms: 2 },
            2 => Op::Send { slot: 0, kind: SendKind::Tell, mty: MTy::U, body: Body { uid: nu(), flags: 0, steps: vec![Step::Panic] } },
            3 => Op::Send { slot: 1, kind: SendKind::Tell, mty: MTy::U, body: Body::plain(nu()) },
            4 => Op::SendDeferred { slot: 1, kind: SendKind::Ask, body: Body::plain(nu()), defer: 0 },
            5 => Op::Send { slot: 0, kind: SendKind::TellTo(2), mty: MTy::S, body: Body::plain(nu()) },
            6 => Op::Kill { slot: 1 },
            _ => Op::StopTo { slot: 1, ms: 4 },
        });
    }
    for (i, op) in pile.into_iter().enumerate() {
        ops.push(ClientOp { pre: if i == 0 && in_start { Pre::Yield } else { Pre::None }, op });
    }
    if r.chance(60) {
        ops.push(ClientOp { pre: Pre::None, op: Op::DropSlot { slot: 0 } });
        ops.push(ClientOp { pre: Pre::None, op: Op::DropSlot { slot: 1 } });
    }
    if !in_start && r.chance(50) {
        ops.push(ClientOp { pre: Pre::Sleep(2 * r.range(1, 3)), op: Op::OpenGate(0) });
    }
    let actor = ActorSpec {
        cap: Some(*r.pick(&[1usize, 2, 4, 16])),
        start: HookScript { delay: if in_start { 2 * r.range(2, 4) } else { 0 }, steps: vec![], out: Out::Ok },
        run: if r.chance(40) { vec![RunStep { segs: vec![2 * r.range(1, 3)], steps: vec![], out: if r.chance(30) { Out::Err } else { Out::True } }] } else { vec![] },
        stop: HookScript { delay: if r.chance(40) { 2 * r.range(1, 2) } else { 0 }, steps: vec![], out: if r.chance(15) { Out::Err } else { Out::Ok } },
        run_err_when_handled: None,
        in_peers: false,
    };
    Scenario {
        seed,
        pert: 0,
        profile: "lifecycle".to_string(),
        actors: vec![actor],
        clients: vec![ClientSpec { init: vec![Some(0), None, None, None], ops, drop_at_end: r.chance(70) }],
        ngates: 1,
        teardown: vec![*r.pick(&[Teardown::Stop, Teardown::Kill, Teardown::DropAll])],
        sample_until: 31,
        default_cap: 32,
        fixed_timing: false,
    }
}

/// A long life: one actor whose on_run never gets to finish (it sleeps for seconds, every message pre-empts it) handles well
/// over a thousand messages. Nothing about "messages first" may wear off with the number of messages or pre-emptions.
fn generate_marathon(seed: u64) -> Scenario {
    let mut r = Rng::new(seed ^ 0x3A7A);
    let total = 1050 + r.below(300);
    let chunk = 8 + r.below(24);
    let mut ops = vec![];
    for i in 0..total {
        ops.push(ClientOp {
            pre: if i % chunk == 0 { Pre::Sleep(2) } else { Pre::None },
            op: Op::Send { slot: 0, kind: if i % 97 == 96 { SendKind::Ask } else { SendKind::Tell }, mty: MTy::U, body: Body::plain(i + 1) },
        });
    }
    let run = (0..3).map(|_| RunStep { segs: vec![2000 + 2 * r.below(1000)], steps: vec![], out: Out::True }).collect();
    Scenario {
        seed,
        pert: 0,
        profile: "idle".to_string(),
        actors: vec![ActorSpec { cap: Some(32 + r.below(33) as usize), start: HookScript::default(), run, stop: HookScript::default(), run_err_when_handled: None, in_peers: false }],
        clients: vec![ClientSpec { init: vec![Some(0), None, None, None], ops, drop_at_end: r.chance(50) }],
        ngates: 1,
        teardown: vec![if r.chance(50) { Teardown::Stop } else { Teardown::Kill }],
        sample_until: 21,
        default_cap: 32,
        fixed_timing: false,
    }
}

/// A long ring: a client asks actor 0, whose handler asks actor 1, ... and actor N-1 asks actor 0 (or some earlier member).
/// Detection must not depend on how long the would-be cycle is.
fn generate_ring(seed: u64) -> Scenario {
    let mut r = Rng::new(seed ^ 0x21A6);
    let n = *r.pick(&[6usize, 9, 13, 17, 18, 19, 24, 33, 48]);
    let back = if r.chance(70) { 0 } else { r.below(n as u64 / 2) as usize };
    // nested bodies: message to actor i carries "ask actor i+1 with the rest"
    let mut uid = n as u64 + 10;
    let kinds = |r: &mut Rng| match r.below(6) {
        0 => (SendKind::AskTo(1 << 30), MTy::U),
        1 => (SendKind::Ask, MTy::S),
        2 => (SendKind::AskJoin, MTy::J),
        _ => (SendKind::Ask, MTy::U),
    };
    let (ck, cm) = kinds(&mut r);
    let mut body = Body { uid: 1, flags: 0, steps: vec![Step::Peer { target: back, kind: ck, mty: cm, body: Body::plain(2) }] };
    for i in (0..n - 1).rev() {
        uid += 1;
        let (k, m) = kinds(&mut r);
        let mut steps = vec![];
        if r.chance(30) {
            steps.push(Step::Sleep(2));
        }
        steps.push(Step::Peer { target: i + 1, kind: k, mty: m, body });
        body = Body { uid, flags: 0, steps };
    }
    let actors = (0..n)
        .map(|_| ActorSpec { cap: Some(4), start: HookScript::default(), run: vec![], stop: HookScript::default(), run_err_when_handled: None, in_peers: true })
        .collect();
    let clients = vec![ClientSpec {
        init: vec![Some(0), None, None, None],
        ops: vec![ClientOp { pre: Pre::None, op: Op::Send { slot: 0, kind: if r.chance(50) { SendKind::Ask } else { SendKind::Tell }, mty: MTy::U, body } }],
        drop_at_end: true,
    }];
    Scenario {
        seed,
        pert: 0,
        profile: "deadlock".to_string(),
        actors,
        clients,
        ngates: 1,
        teardown: (0..n).map(|_| Teardown::Stop).collect(),
        sample_until: 21,
        default_cap: 32,
        fixed_timing: false,
    }
}

/// "last words" (cyclic - deadlock profile only): A's handler has an ask queued at busy B when B is killed; B's
/// on_stop(killed) asks A as its first act. As long as A's request still sits in B's mailbox this is a real cycle
/// (B -> A -> B) and the ask must panic; a request that has already been thrown away has failed and closes nothing.
fn generate_lastwords(seed: u64) -> Scenario {
    let mut r = Rng::new(seed ^ 0x1A57);
    let mut uid = 0u64;
    let mut nu = || {
        uid += 1;
        uid
    };
    let plain = |u: u64, ms: u64| Body { uid: u, flags: 0, steps: if ms > 0 { vec![Step::Sleep(ms)] } else { vec![] } };
    let spec = || ActorSpec { cap: Some(16), start: HookScript::default(), run: vec![], stop: HookScript::default(), run_err_when_handled: None, in_peers: true };
        let hold = Body { uid: nu(), flags: 0, steps: vec![Step::Gate(0)] };
        let m_a = Body { uid: nu(), flags: 0, steps: vec![Step::Peer { target: 1, kind: if r.chance(70) { SendKind::Ask } else { SendKind::AskTo(2 * r.range(8, 12)) }, mty: MTy::U, body: plain(nu(), 0) }] };
        let mut actors = vec![spec(), spec(), spec()];
        actors[1].stop = HookScript { delay: 0, steps: vec![Step::Peer { target: 0, kind: SendKind::Ask, mty: MTy::U, body: plain(nu(), 0) }], out: Out::Ok };
        let ender = if r.chance(75) { Op::Kill { slot: 0 } } else { Op::Stop { slot: 0 } };
        let clients = vec![
            ClientSpec { init: vec![Some(1), None, None, None], ops: vec![ClientOp { pre: Pre::None, op: Op::Send { slot: 0, kind: SendKind::Tell, mty: MTy::U, body: hold } }], drop_at_end: true },
            ClientSpec { init: vec![Some(0), None, None, None], ops: vec![ClientOp { pre: Pre::Sleep(2), op: Op::Send { slot: 0, kind: if r.chance(50) { SendKind::Ask } else { SendKind::Tell }, mty: MTy::U, body: m_a } }], drop_at_end: true },
            ClientSpec {
                init: vec![Some(1), None, None, None],
                ops: vec![ClientOp { pre: Pre::Sleep(4), op: ender }, ClientOp { pre: if r.chance(50) { Pre::None } else { Pre::Sleep(2) }, op: Op::OpenGate(0) }],
                drop_at_end: true,
            },
        ];
        Scenario {
            seed,
            pert: 0,
            profile: "deadlock".to_string(),
            actors,
            clients,
            ngates: 1,
            teardown: vec![Teardown::Stop, Teardown::Kill, Teardown::Stop],
            sample_until: 61,
            default_cap: 32,
            fixed_timing: true,
        }
}

fn generate_deadlock(seed: u64) -> Scenario {
    if seed % 16 == 5 {
        return generate_lastwords(seed);
    }
    if seed % 10 == 3 {
        return generate_overlap(seed);
    }
    if seed % 64 == 7 {
        return generate_ring(seed);
    }
    let mut r = Rng::new(seed ^ 0xDEAD10C);
    let n = r.range(2, 5) as usize;
    let mut uid = 0u64;
    // "small" mode: tiny mailboxes (senders park on full mailboxes while edges exist); in-actor tells are left out there,
    // because a cycle of tells blocked on full mailboxes would be a deadlock of the workload that nothing can detect
    let small = r.chance(40);
    fn chain(r: &mut Rng, uid: &mut u64, n: usize, from: usize, maxlen: u64, hold: u64, small: bool) -> Body {
        *uid += 1;
        let my = *uid;
        let mut steps = vec![];
        if hold > 0 {
            steps.push(Step::Sleep(hold));
        }
        let len = r.below(maxlen + 1);
        if len > 0 {
            let mut t = r.below(n as u64) as usize;
            if t == from && !r.chance(12) {
                t = (t + 1) % n;
            }
            let pre = 2 * r.below(3);
            if pre > 0 {
                steps.push(Step::Sleep(pre));
            }
            let post = 2 * r.below(3);
            let sub = chain(r, uid, n, t, len - 1, post, small);
            match r.below(12) {
                0 | 1 => steps.push(Step::Peer {
                    target: t,
                    kind: SendKind::AskTo(2 * r.range(1, 6)),
                    mty: MTy::U,
                    body: sub,
                }),
                2 => steps.push(Step::SelectAsk {
                    target: t,
                    ms: 2 * r.range(1, 6),
                    body: sub,
                }),
                3 => steps.push(Step::Peer {
                    target: t,
                    kind: SendKind::Ask,
                    mty: MTy::S,
                    body: sub,
                }),
                4 if !small => steps.push(Step::Peer {
                    target: t,
                    kind: SendKind::Tell,
                    mty: MTy::U,
                    body: sub,
                }),
                5 => steps.push(Step::DetachedAsk { target: t, body: sub }),
                7 => {
                    // two ask futures made up front, awaited in turn; the second one goes to a leaf that asks nobody
                    let t2 = (t + 1 + r.below(n as u64 - 1) as usize) % n;
                    *uid += 1;
                    let leaf = Body::plain(*uid);
                    if t2 != from && t2 != t {
                        steps.push(Step::SeqAsk2 { t1: t, b1: sub, t2, b2: leaf });
                    } else {
                        steps.push(Step::Peer { target: t, kind: SendKind::Ask, mty: MTy::U, body: sub });
                    }
                }
                // ask_join awaited inside a hook is an ask like any other as far as cycles are concerned
                6 => steps.push(Step::Peer {
                    target: t,
                    kind: SendKind::AskJoin,
                    mty: MTy::J,
                    body: sub,
                }),
                _ => steps.push(Step::Peer {
                    target: t,
                    kind: SendKind::Ask,
                    mty: MTy::U,
                    body: sub,
                }),
            }
            if r.chance(15) {
                steps.push(Step::Sleep(2));
            }
            if r.chance(15) {
                // the hook survives whatever its first ask returned (also an error caused by a deadlock report further down
                // the chain) and asks somebody else - possibly an actor that is still waiting for it
                let t2 = r.below(n as u64) as usize;
                if t2 != from {
                    *uid += 1;
                    steps.push(Step::Peer { target: t2, kind: SendKind::Ask, mty: MTy::U, body: Body::plain(*uid) });
                }
            }
        }
        Body {
            uid: my,
            flags: 0,
            steps,
        }
    }
    let ngates = 1;
    let mut actors = vec![];
    for a in 0..n {
        let start_steps = if a > 0 && r.chance(10) {
            // only targets lower indices: they are registered in the peers table before anything runs anyway
            chain(&mut r, &mut uid, n, a, 1, 0, small).steps
        } else {
            vec![]
        };
        let stop_steps = if r.chance(20) { chain(&mut r, &mut uid, n, a, 2, 0, small).steps } else { vec![] };
        let run = if r.chance(20) {
            let b = chain(&mut r, &mut uid, n, a, 2, 0, small);
            vec![RunStep {
                segs: vec![2 * r.range(1, 4)],
                steps: b.steps,
                // an on_run error sends the actor into on_stop, whose asks must be tracked like any other hook's
                out: if r.chance(40) { Out::Err } else { Out::False },
            }]
        } else if !stop_steps.is_empty() && r.chance(50) {
            vec![RunStep {
                segs: vec![2 * r.range(1, 8)],
                steps: vec![],
                out: Out::Err,
            }]
        } else {
            vec![]
        };
        actors.push(ActorSpec {
            cap: Some(if small { 1 + r.below(2) as usize } else { 16 }),
            start: HookScript {
                delay: if r.chance(20) { 2 } else { 0 },
                steps: start_steps,
                out: Out::Ok,
            },
            run,
            stop: HookScript {
                delay: 0,
                steps: stop_steps,
                out: Out::Ok,
            },
            run_err_when_handled: None,
            in_peers: true,
        });
    }
    let mut clients = vec![];
    let gated = r.chance(30);
    for c in 0..(2 + r.below(5)) as usize {
        let first = r.below(n as u64) as usize;
        let mut ops = vec![];
        if c == 0 && gated {
            uid += 1;
            ops.push(ClientOp {
                pre: Pre::None,
                op: Op::Send {
                    slot: 0,
                    kind: SendKind::Tell,
                    mty: MTy::U,
                    body: Body {
                        uid,
                        flags: 0,
                        steps: vec![Step::Gate(0)],
                    },
                },
            });
            ops.push(ClientOp {
                pre: Pre::Sleep(2 * r.range(2, 6)),
                op: Op::OpenGate(0),
            });
        }
        for _ in 0..r.range(1, 3) {
            let hold = 2 * r.below(3);
            let b = chain(&mut r, &mut uid, n, first, 3, hold, small);
            let kind = if r.chance(55) { SendKind::Ask } else { SendKind::Tell };
            ops.push(ClientOp {
                pre: match r.below(3) {
                    0 => Pre::None,
                    _ => Pre::Sleep(2 * r.range(0, 5)),
                },
                op: Op::Send {
                    slot: 0,
                    kind,
                    mty: MTy::U,
                    body: b,
                },
            });
        }
        if r.chance(8) {
            ops.push(ClientOp {
                pre: Pre::Sleep(2 * r.range(1, 6)),
                op: Op::Kill { slot: 0 },
            });
        }
        clients.push(ClientSpec {
            init: vec![Some(first), None, None, None],
            ops,
            drop_at_end: r.chance(50),
        });
    }
    let teardown = (0..n)
        .map(|_| if r.chance(70) { Teardown::Stop } else { Teardown::Kill })
        .collect();
    Scenario {
        seed,
        pert: 0,
        profile: "deadlock".to_string(),
        actors,
        clients,
        ngates,
        teardown,
        sample_until: 41,
        default_cap: 32,
        fixed_timing: false,
    }
}

/// Re-time a scenario without changing what it does: extra yields / even-millisecond sleeps at
/// client operation boundaries and inside hook scripts (all existing suspension points).
pub fn perturb(sc: &mut Scenario, pert: u64) {
    if pert == 0 || sc.fixed_timing {
        // fixed_timing: the scenario's safety (no ask cycle at run time) depends on its delays
        return;
    }
    sc.pert = pert;
    let mut r = Rng::new(crate::util::mix(sc.seed, pert));
    for c in sc.clients.iter_mut() {
        for op in c.ops.iter_mut() {
            if r.chance(35) {
                op.pre = match op.pre {
                    Pre::None => {
                        if r.chance(50) {
                            Pre::Yield
                        } else {
                            Pre::Sleep(2)
                        }
                    }
                    Pre::Yield => Pre::Sleep(2 * r.range(1, 2)),
                    Pre::Sleep(x) => {
                        if r.chance(30) {
                            Pre::None
                        } else {
                            Pre::Sleep(x + 2 * r.range(0, 2))
                        }
                    }
                    Pre::Coop(n) => Pre::Coop(n),
                };
            }
        }
    }
    for a in sc.actors.iter_mut() {
        if r.chance(30) {
            a.start.delay = 2 * r.range(0, 3);
        }
        if r.chance(30) {
            a.stop.delay = 2 * r.range(0, 2);
        }
        for rs in a.run.iter_mut() {
            for s in rs.segs.iter_mut() {
                if r.chance(30) {
                    *s = 2 * r.range(1, 4);
                }
            }
        }
    }
}
