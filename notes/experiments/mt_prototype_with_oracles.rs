// Prototype of the MT engine: real threads, stamp intervals, interval-mode oracles.
use rsactor::{spawn_with_mailbox_capacity, Actor, ActorRef, ActorWeak, Message};
use std::collections::BTreeMap;
use std::sync::atomic::{AtomicU64, Ordering};
use std::sync::{Arc, Mutex};
use std::time::{Duration, Instant};

static STAMP: AtomicU64 = AtomicU64::new(1);
fn stamp() -> u64 { STAMP.fetch_add(1, Ordering::SeqCst) }
#[derive(Clone, Debug, PartialEq)] enum Res { Ok(Option<u64>), Send, Timeout, Receive, Other }
#[derive(Clone, Debug)]
enum Ev { Call { actor: usize, kind: &'static str, uid: u64, s: u64, e: u64, res: Res }, HEnter { actor: usize, uid: u64, at: u64, reply: u64 }, StopEnter { actor: usize, killed: bool, at: u64 }, Ended { actor: usize, at: u64, killed: Option<bool>, panic: bool }, LastDrop { actor: usize, at: u64 } }
type Log = Arc<Mutex<Vec<Ev>>>;
struct Rng(u64);
impl Rng { fn next(&mut self) -> u64 { self.0 = self.0.wrapping_add(0x9E3779B97F4A7C15); let mut z = self.0; z = (z ^ (z >> 30)).wrapping_mul(0xBF58476D1CE4E5B9); z = (z ^ (z >> 27)).wrapping_mul(0x94D049BB133111EB); z ^ (z >> 31) } fn below(&mut self, n: u64) -> u64 { self.next() % n } fn chance(&mut self, p: u64) -> bool { self.below(100) < p } }

struct Args { idx: usize, log: Log }
struct S { a: Args, n: u64 }
struct M { uid: u64, spin: u64, sleep_us: u64, panic: bool }
impl Actor for S { type Args = Args; type Error = String;
    async fn on_start(a: Args, _: &ActorRef<Self>) -> Result<Self, String> { Ok(S { a, n: 0 }) }
    async fn on_stop(&mut self, _: &ActorWeak<Self>, k: bool) -> Result<(), String> { self.a.log.lock().unwrap().push(Ev::StopEnter { actor: self.a.idx, killed: k, at: stamp() }); Ok(()) } }
impl Message<M> for S { type Reply = u64;
    async fn handle(&mut self, m: M, _: &ActorRef<Self>) -> u64 { self.n += 1; let reply = m.uid * 1000 + self.n; self.a.log.lock().unwrap().push(Ev::HEnter { actor: self.a.idx, uid: m.uid, at: stamp(), reply });
        for _ in 0..m.spin { std::hint::spin_loop(); } if m.sleep_us > 0 { tokio::time::sleep(Duration::from_micros(m.sleep_us)).await; } if m.panic { panic!("scripted handler panic"); } reply } }

// dead letter capture keyed by actor id
static DL: Mutex<Vec<(u64, String, String)>> = Mutex::new(Vec::new());
struct Sub; struct V { id: u64, op: String, reason: String, is_dl: bool }
impl tracing::field::Visit for V {
    fn record_u64(&mut self, f: &tracing::field::Field, v: u64) { if f.name() == "actor.id" { self.id = v } }
    fn record_str(&mut self, f: &tracing::field::Field, v: &str) { if f.name() == "dead_letter.operation" { self.op = v.to_string() } }
    fn record_debug(&mut self, f: &tracing::field::Field, v: &dyn std::fmt::Debug) { let s = format!("{v:?}"); if f.name() == "dead_letter.reason" { self.reason = s } else if f.name() == "message" && s.contains("Dead letter") { self.is_dl = true } } }
impl tracing::Subscriber for Sub {
    fn enabled(&self, _: &tracing::Metadata<'_>) -> bool { true } fn new_span(&self, _: &tracing::span::Attributes<'_>) -> tracing::span::Id { tracing::span::Id::from_u64(1) }
    fn record(&self, _: &tracing::span::Id, _: &tracing::span::Record<'_>) {} fn record_follows_from(&self, _: &tracing::span::Id, _: &tracing::span::Id) {}
    fn event(&self, e: &tracing::Event<'_>) { let mut v = V { id: 0, op: String::new(), reason: String::new(), is_dl: false }; e.record(&mut v); if v.is_dl { DL.lock().unwrap().push((v.id, v.op, v.reason)); } }
    fn enter(&self, _: &tracing::span::Id) {} fn exit(&self, _: &tracing::span::Id) {} }

fn map_err(e: rsactor::Error) -> Res { match e { rsactor::Error::Send { .. } => Res::Send, rsactor::Error::Timeout { .. } => Res::Timeout, rsactor::Error::Receive { .. } => Res::Receive, _ => Res::Other } }
static UID: AtomicU64 = AtomicU64::new(1);

struct RoundOut { log: Vec<Ev>, ids: Vec<u64>, hung: usize, caps: Vec<usize> }
async fn round(seed: u64) -> RoundOut {
    let mut r = Rng(seed); let log: Log = Arc::new(Mutex::new(vec![]));
    let nact = 1 + r.below(2) as usize; let mut refs = vec![]; let mut jhs = vec![]; let mut ids = vec![]; let mut caps = vec![];
    for i in 0..nact { let cap = 1 + r.below(4) as usize; caps.push(cap); let (rf, jh) = spawn_with_mailbox_capacity::<S>(Args { idx: i, log: log.clone() }, cap); ids.push(rf.identity().id); refs.push(rf); jhs.push(jh); }
    let mut clients = vec![];
    let ncl = 2 + r.below(5);
    for _ in 0..ncl {
        let target = r.below(nact as u64) as usize; let rf = refs[target].clone(); let log = log.clone(); let blocking = r.chance(35); let mut cr = Rng(r.next()); let nops = 2 + r.below(7);
        let mut body = move |rf: ActorRef<S>, blocking: bool| -> Vec<(u8, M, u64)> { let _ = (&rf, blocking); (0..nops).map(|_| { let uid = UID.fetch_add(1, Ordering::Relaxed); (cr.below(if blocking { 4 } else { 5 }) as u8, M { uid, spin: cr.below(300), sleep_us: if cr.chance(20) { 50 + cr.below(300) } else { 0 }, panic: cr.chance(1) }, cr.below(200)) }).collect() };
        let ops = body(rf.clone(), blocking);
        if blocking {
            clients.push(tokio::task::spawn_blocking(move || { for (k, m, spin) in ops { for _ in 0..spin { std::hint::spin_loop(); } let uid = m.uid; let s = stamp();
                let (kind, res) = match k { 0 => ("btell", rf.blocking_tell(m, None).map(|_| None)), 1 => ("bask", rf.blocking_ask(m, None).map(Some)), 2 => ("btell_to", rf.blocking_tell(m, Some(Duration::from_secs(30))).map(|_| None)), _ => ("bask_to", rf.blocking_ask(m, Some(Duration::from_secs(30))).map(Some)) };
                let e = stamp(); log.lock().unwrap().push(Ev::Call { actor: target, kind, uid, s, e, res: match res { Ok(v) => Res::Ok(v), Err(e) => map_err(e) } }); } }));
        } else {
            clients.push(tokio::spawn(async move { for (k, m, spin) in ops { for _ in 0..spin { std::hint::spin_loop(); } if spin % 3 == 0 { tokio::task::yield_now().await; } let uid = m.uid; let s = stamp();
                let (kind, res) = match k { 0 | 4 => ("tell", rf.tell(m).await.map(|_| None)), 1 => ("ask", rf.ask(m).await.map(Some)), 2 => ("tell_to", rf.tell_with_timeout(m, Duration::from_secs(30)).await.map(|_| None)), _ => ("ask_to", rf.ask_with_timeout(m, Duration::from_secs(30)).await.map(Some)) };
                let e = stamp(); log.lock().unwrap().push(Ev::Call { actor: target, kind, uid, s, e, res: match res { Ok(v) => Res::Ok(v), Err(e) => map_err(e) } }); } }));
        }
    }
    // terminator
    for _ in 0..r.below(3000) { std::hint::spin_loop(); }
    if r.chance(50) { tokio::task::yield_now().await; }
    if r.chance(30) { tokio::time::sleep(Duration::from_micros(r.below(400))).await; }
    for (i, rf) in refs.iter().enumerate() { match r.below(4) { 0 => { let s = stamp(); rf.kill().unwrap(); let e = stamp(); log.lock().unwrap().push(Ev::Call { actor: i, kind: "kill", uid: 0, s, e, res: Res::Ok(None) }); } 1 | 2 => { let s = stamp(); rf.stop().await.unwrap(); let e = stamp(); log.lock().unwrap().push(Ev::Call { actor: i, kind: "stop", uid: 0, s, e, res: Res::Ok(None) }); } _ => {} } }
    drop(refs);
    let mut hung = 0;
    for c in clients { let mut c = c; if tokio::time::timeout(Duration::from_secs(10), &mut c).await.is_err() { hung += 1; } }
    for (i, jh) in jhs.into_iter().enumerate() { match tokio::time::timeout(Duration::from_secs(10), jh).await { Ok(res) => { let (k, p) = match &res { Ok(r) => (Some(r.was_killed()), false), Err(e) => (None, e.is_panic()) }; log.lock().unwrap().push(Ev::Ended { actor: i, at: stamp(), killed: k, panic: p }); } Err(_) => { hung += 1; } } }
    let v = log.lock().unwrap().clone(); RoundOut { log: v, ids, hung, caps }
}

fn check(out: &RoundOut, dl: &[(u64, String, String)]) -> (Vec<String>, u64) {
    let mut v = vec![]; let log = &out.log; let n = out.ids.len(); let mut failures = 0u64;
    if out.hung > 0 { v.push(format!("C03 {} client(s)/actor(s) still pending 10 s after teardown", out.hung)); }
    let mut h: BTreeMap<u64, Vec<(u64, u64)>> = BTreeMap::new(); for e in log { if let Ev::HEnter { uid, at, reply, .. } = e { h.entry(*uid).or_default().push((*at, *reply)); } }
    for (uid, hs) in &h { if hs.len() > 1 { v.push(format!("C01 uid {uid} handled {}x", hs.len())); } }
    let calls: Vec<_> = log.iter().filter_map(|e| if let Ev::Call { actor, kind, uid, s, e, res } = e { Some((*actor, *kind, *uid, *s, *e, res.clone())) } else { None }).collect();
    for a in 0..n {
        let panicked = log.iter().any(|e| matches!(e, Ev::Ended { actor, panic: true, .. } if *actor == a));
        let kill = calls.iter().find(|c| c.0 == a && c.1 == "kill"); let stop = calls.iter().find(|c| c.0 == a && c.1 == "stop");
        let stop_enter = log.iter().find_map(|e| if let Ev::StopEnter { actor, killed, at } = e { if *actor == a { Some((*killed, *at)) } else { None } } else { None });
        let msgs: Vec<_> = calls.iter().filter(|c| c.0 == a && c.1 != "kill" && c.1 != "stop").collect();
        let mut exp: BTreeMap<(String, String), i64> = BTreeMap::new();
        for c in &msgs { let tellfam = c.1.contains("tell"); let handled = h.get(&c.2);
            if tellfam && c.5 != Res::Ok(None) && handled.is_some() { v.push(format!("C01 failed {} uid {} handled", c.1, c.2)); }
            if !tellfam && c.5 == Res::Send && handled.is_some() { v.push(format!("C01 ask Err(Send) uid {} handled", c.2)); }
            if let Res::Ok(Some(val)) = &c.5 { match handled { Some(hs) if hs[0].1 == *val => {} o => v.push(format!("C03 ask uid {} got {val}, handler logged {:?}", c.2, o)) } }
            if tellfam && c.5 == Res::Ok(None) && !panicked && kill.is_none() { if let Some(st) = stop { if c.4 < st.3 && handled.is_none() { v.push(format!("C01 tell uid {} accepted before stop() but never handled", c.2)); } } else if handled.is_none() { v.push(format!("C01 tell uid {} accepted, actor ended by drop, never handled", c.2)); } }
            if let Some(st) = stop { if c.3 > st.4 && handled.is_some() { v.push(format!("C02 uid {} started after stop returned but handled", c.2)); } }
            if let (Some(hs), Some((_, at))) = (handled, stop_enter) { if hs[0].0 > at { v.push(format!("C04 uid {} handled after on_stop", c.2)); } }
            let reason = match c.5 { Res::Send => Some("actor stopped"), Res::Timeout => Some("timeout"), Res::Receive => Some("reply dropped"), _ => None };
            if let Some(rs) = reason { failures += 1; *exp.entry((if tellfam { "tell" } else { "ask" }.to_string(), rs.to_string())).or_default() += 1; }
            for q in &msgs { if tellfam && c.5 == Res::Ok(None) && c.4 < q.3 { if let Some(hq) = h.get(&q.2) { match handled { Some(hp) => if hp[0].0 > hq[0].0 { v.push(format!("C02 uid {} handled after later uid {}", c.2, q.2)); }, None => if !panicked { v.push(format!("C02 uid {} handled but earlier-accepted uid {} not", q.2, c.2)); } } } } }
        }
        for (id, op, reason) in dl.iter().filter(|d| d.0 == out.ids[a]) { let _ = id; let fam = if op.contains("tell") { "tell" } else { "ask" }; *exp.entry((fam.to_string(), reason.clone())).or_default() -= 1; }
        for (k, c) in exp { if c != 0 { v.push(format!("C13 actor {a} {:?} expected-observed={c}", k)); } }
        if let Some(k) = kill { let after = log.iter().filter(|e| matches!(e, Ev::HEnter { actor, at, .. } if *actor == a && *at > k.4)).count(); if after > 1 { v.push(format!("C06 {after} handlers after kill returned")); }
            if stop.is_none() && !panicked { if let Some((killed, at)) = stop_enter { if at > k.4 && !killed && !log.iter().any(|e| matches!(e, Ev::LastDrop { .. })) { /* drop of refs may race: lenient */ } } } }
        let _ = out.caps[a];
    }
    (v, failures)
}

fn main() {
    let workers: usize = std::env::args().nth(1).map(|s| s.parse().unwrap()).unwrap_or(16);
    let secs: u64 = std::env::args().nth(2).map(|s| s.parse().unwrap()).unwrap_or(20);
    let lanes: usize = std::env::args().nth(3).map(|s| s.parse().unwrap()).unwrap_or(8);
    std::panic::set_hook(Box::new(|_| {}));
    tracing::subscriber::set_global_default(Sub).unwrap();
    let rt = tokio::runtime::Builder::new_multi_thread().worker_threads(workers).max_blocking_threads(256).enable_time().build().unwrap();
    let t0 = Instant::now(); let total = Arc::new(AtomicU64::new(0)); let viol = Arc::new(Mutex::new(BTreeMap::<String, u64>::new())); let fails = Arc::new(AtomicU64::new(0)); let evs = Arc::new(AtomicU64::new(0));
    let dl0 = rsactor::dead_letter_count();
    rt.block_on(async { let mut hs = vec![];
        for lane in 0..lanes { let (total, viol, fails, evs) = (total.clone(), viol.clone(), fails.clone(), evs.clone());
            hs.push(tokio::spawn(async move { let mut seed = (lane as u64) << 40; let mut shown = 0;
                while t0.elapsed() < Duration::from_secs(secs) { seed += 1; let out = round(seed).await; 
                    // give helper threads' dead-letter events time? they are recorded before the call returns; safe.
                    let dl: Vec<_> = { let g = DL.lock().unwrap(); g.iter().filter(|d| out.ids.contains(&d.0)).cloned().collect() };
                    let (vs, f) = check(&out, &dl); fails.fetch_add(f, Ordering::Relaxed); evs.fetch_add(out.log.len() as u64, Ordering::Relaxed); total.fetch_add(1, Ordering::Relaxed);
                    if !vs.is_empty() { let mut g = viol.lock().unwrap(); for x in &vs { *g.entry(x.split(' ').next().unwrap().to_string()).or_default() += 1; } if shown < 2 { shown += 1; eprintln!("seed {seed}: {:?}", vs); } } } })); }
        for h in hs { h.await.unwrap(); } });
    let dl_total = rsactor::dead_letter_count() - dl0; let f = fails.load(Ordering::Relaxed);
    println!("rounds={} events={} violations={:?} failures={} dead_letter_count_delta={} {} wall={:?}", total.load(Ordering::Relaxed), evs.load(Ordering::Relaxed), viol.lock().unwrap(), f, dl_total, if f == dl_total { "COUNTER-OK" } else { "C13 COUNTER MISMATCH" }, t0.elapsed());
}
