//! Trace oracles. Pure functions over the recorded event log (plus the few static facts of the
//! scenario a client could know: capacities, actor ids). Written from the property statements, not
//! from rsactor's sources. Every clause counts its non-vacuous evaluations ("obligations").

use crate::ev::*;
use std::collections::{BTreeMap, BTreeSet};

#[derive(Clone, Copy, PartialEq, Eq, Debug)]
pub enum Mode {
    Sim,
    Mt,
}

pub struct Meta {
    pub mode: Mode,
    pub caps: Vec<usize>,
    pub ids: Vec<u64>,
    pub dl_delta: Option<u64>,
    pub deadlock_feature: bool,
    pub metrics_feature: bool,
    pub graph_hook: bool,
    /// MT: a watchdog fired in this process, so late results of stranded calls may still arrive
    pub tainted: bool,
}

#[derive(Clone, Debug)]
pub struct Violation {
    pub clause: &'static str,
    pub msg: String,
    pub actor: Option<usize>,
}

#[derive(Default)]
pub struct Findings {
    pub viol: Vec<Violation>,
    pub obl: BTreeMap<&'static str, u64>,
}

impl Findings {
    fn v(&mut self, clause: &'static str, actor: Option<usize>, msg: String) {
        if self.viol.len() < 200 {
            self.viol.push(Violation { clause, msg, actor });
        }
    }
    fn o(&mut self, clause: &'static str) {
        *self.obl.entry(clause).or_default() += 1;
    }
    fn on(&mut self, clause: &'static str, n: u64) {
        if n > 0 {
            *self.obl.entry(clause).or_default() += n;
        }
    }
    pub fn prop_of(clause: &str) -> &str {
        &clause[..3]
    }
}

#[derive(Clone, Debug)]
pub struct OpInfo {
    pub op: u64,
    pub s: usize,
    pub ts: u64,
    pub actor: usize,
    pub kind: OpKind,
    pub mty: char,
    pub uid: u64,
    pub to: u64,
    pub ctx: Ctx,
    pub end: Option<(usize, Res, u64)>,
    pub cancelled: Option<usize>,
    pub panicked: Option<(usize, String)>,
    /// the calling task had used up its cooperative budget when the call was made: the call's first budgeted operation
    /// (acquiring a mailbox permit) yields instead of completing, so nothing can be said about the instant of the call
    pub starved: bool,
}

impl OpInfo {
    pub fn closed_pos(&self) -> Option<usize> {
        self.end
            .as_ref()
            .map(|e| e.0)
            .or(self.cancelled)
            .or(self.panicked.as_ref().map(|p| p.0))
    }
    pub fn res(&self) -> Option<&Res> {
        self.end.as_ref().map(|e| &e.1)
    }
    pub fn accepted_tell(&self) -> bool {
        self.kind.tell_family() && matches!(self.res(), Some(Res::Ok(_)))
    }
}

#[derive(Default, Clone, Debug)]
pub struct ActorIx {
    pub start_enter: Vec<usize>,
    pub start_exit: Option<(usize, Out)>,
    pub stop_enter: Vec<(usize, bool, u64)>,
    pub stop_exit: Vec<(usize, Out)>,
    pub ended: Option<(usize, EndSummary, u64)>,
    /// (pos, uid)
    pub henter: Vec<(usize, u64)>,
    pub hexit: Vec<(usize, u64)>,
    pub hpanic: Vec<(usize, u64)>,
    /// (pos, inv)
    pub run_poll: Vec<(usize, u32)>,
    /// (pos, inv, out)
    pub run_done: Vec<(usize, u32, Out)>,
    pub run_cancel: Vec<(usize, u32)>,
    pub kills: Vec<u64>,
    pub stops: Vec<u64>,
    pub msgs: Vec<u64>,
    pub tell_results: Vec<(usize, Rep)>,
    /// positions of CallPanicked for calls issued inside this actor's hooks
    pub hook_call_panics: Vec<(usize, HookKind, String)>,
}

impl ActorIx {
    pub fn started_ok(&self) -> bool {
        matches!(self.start_exit, Some((_, Out::Ok)))
    }
    pub fn c(&self) -> Option<usize> {
        self.stop_enter.first().map(|s| s.0)
    }
    pub fn run_err(&self) -> Option<usize> {
        self.run_done.iter().find(|r| r.2 == Out::Err).map(|r| r.0)
    }
    pub fn first_hook_panic(&self) -> Option<usize> {
        let mut v = vec![];
        if let Some((p, Out::Panic)) = self.start_exit {
            v.push(p);
        }
        v.extend(self.hpanic.iter().map(|h| h.0));
        v.extend(self.run_done.iter().filter(|r| r.2 == Out::Panic).map(|r| r.0));
        v.extend(self.stop_exit.iter().filter(|s| s.1 == Out::Panic).map(|s| s.0));
        v.extend(self.hook_call_panics.iter().map(|h| h.0));
        v.into_iter().min()
    }
    pub fn ended_pos(&self) -> Option<usize> {
        self.ended.as_ref().map(|e| e.0)
    }
}

pub struct Ix<'a> {
    pub log: &'a [Ev],
    pub meta: &'a Meta,
    pub ops: BTreeMap<u64, OpInfo>,
    pub actors: Vec<ActorIx>,
    pub henter: BTreeMap<u64, Vec<usize>>,
    pub hexit: BTreeMap<u64, (usize, Rep, u64)>,
    pub hpanic: BTreeMap<u64, (usize, u64)>,
    pub jointask: BTreeMap<u64, (usize, Out)>,
    pub phases: BTreeMap<&'static str, usize>,
    /// positions of quiescent samples: (pos, phase, actor)
    pub samples: Vec<usize>,
}

impl<'a> Ix<'a> {
    pub fn build(log: &'a [Ev], meta: &'a Meta) -> Ix<'a> {
        let n = meta.caps.len();
        let mut ix = Ix {
            log,
            meta,
            ops: BTreeMap::new(),
            actors: vec![ActorIx::default(); n],
            henter: BTreeMap::new(),
            hexit: BTreeMap::new(),
            hpanic: BTreeMap::new(),
            jointask: BTreeMap::new(),
            phases: BTreeMap::new(),
            samples: vec![],
        };
        let mut starved: BTreeSet<u64> = BTreeSet::new();
        for (i, e) in log.iter().enumerate() {
            if let K::Note(s) = &e.k {
                if let Some(op) = s.strip_prefix("nobudget ").and_then(|x| x.parse::<u64>().ok()) {
                    starved.insert(op);
                }
            }
            match &e.k {
                K::CallStart {
                    op,
                    actor,
                    kind,
                    mty,
                    uid,
                    to,
                    ctx,
                } => {
                    ix.ops.insert(
                        *op,
                        OpInfo {
                            op: *op,
                            s: i,
                            ts: e.t,
                            actor: *actor,
                            kind: *kind,
                            mty: *mty,
                            uid: *uid,
                            to: *to,
                            ctx: *ctx,
                            end: None,
                            cancelled: None,
                            panicked: None,
                            starved: starved.contains(op),
                        },
                    );
                    let a = &mut ix.actors[*actor];
                    match kind {
                        OpKind::Kill => a.kills.push(*op),
                        OpKind::Stop => a.stops.push(*op),
                        _ => a.msgs.push(*op),
                    }
                }
                K::CallEnd { op, res } => {
                    if let Some(o) = ix.ops.get_mut(op) {
                        o.end = Some((i, res.clone(), e.t));
                    }
                }
                K::CallCancelled { op } => {
                    if let Some(o) = ix.ops.get_mut(op) {
                        o.cancelled = Some(i);
                    }
                }
                K::CallPanicked { op, msg } => {
                    if let Some(o) = ix.ops.get_mut(op) {
                        o.panicked = Some((i, msg.clone()));
                        if let Ctx::Hook(a, hk) = o.ctx {
                            ix.actors[a].hook_call_panics.push((i, hk, msg.clone()));
                        }
                    }
                }
                K::HEnter { actor, uid } => {
                    ix.henter.entry(*uid).or_default().push(i);
                    ix.actors[*actor].henter.push((i, *uid));
                }
                K::HExit { actor, uid, rep } => {
                    ix.hexit.insert(*uid, (i, rep.clone(), e.t));
                    ix.actors[*actor].hexit.push((i, *uid));
                }
                K::HPanic { actor, uid } => {
                    ix.hpanic.insert(*uid, (i, e.t));
                    ix.actors[*actor].hpanic.push((i, *uid));
                }
                K::StartEnter { actor } => ix.actors[*actor].start_enter.push(i),
                K::StartExit { actor, out } => ix.actors[*actor].start_exit = Some((i, *out)),
                K::StopEnter { actor, killed } => ix.actors[*actor].stop_enter.push((i, *killed, e.t)),
                K::StopExit { actor, out } => ix.actors[*actor].stop_exit.push((i, *out)),
                K::RunPoll { actor, inv } => ix.actors[*actor].run_poll.push((i, *inv)),
                K::RunDone { actor, inv, out } => ix.actors[*actor].run_done.push((i, *inv, *out)),
                K::RunCancel { actor, inv } => ix.actors[*actor].run_cancel.push((i, *inv)),
                K::TellResult { actor, rep } => ix.actors[*actor].tell_results.push((i, rep.clone())),
                K::JoinTask { uid, out } => {
                    ix.jointask.insert(*uid, (i, *out));
                }
                K::Ended { actor, sum } => ix.actors[*actor].ended = Some((i, sum.clone(), e.t)),
                K::Phase(p) => {
                    ix.phases.insert(p, i);
                }
                K::Sample { .. } => ix.samples.push(i),
                _ => {}
            }
        }
        ix
    }

    fn sim(&self) -> bool {
        self.meta.mode == Mode::Sim
    }

    /// position of the first kill call on `a` (CallStart), if any
    fn first_kill_start(&self, a: usize) -> Option<usize> {
        self.actors[a].kills.iter().map(|k| self.ops[k].s).min()
    }
    fn first_stop_start(&self, a: usize) -> Option<usize> {
        self.actors[a].stops.iter().map(|k| self.ops[k].s).min()
    }
    /// killed (some kill() call started before on_stop began, or at all if on_stop never ran)
    fn kill_exempt(&self, a: usize) -> bool {
        match (self.first_kill_start(a), self.actors[a].c()) {
            (Some(k), Some(c)) => k < c,
            (Some(_), None) => true,
            _ => false,
        }
    }
    fn crashed(&self, a: usize) -> bool {
        self.actors[a].first_hook_panic().is_some()
            || self.actors[a]
                .ended
                .as_ref()
                .map(|e| e.1.panic.is_some() || e.1.cancelled)
                .unwrap_or(false)
    }
    /// "exempt" in the sense of C01/C02/C07: killed, crashed, failed start-up or on_run error
    fn exempt(&self, a: usize) -> bool {
        let x = &self.actors[a];
        !x.started_ok() || self.crashed(a) || x.run_err().is_some() || self.kill_exempt(a)
    }
    /// is a hook of `a` in progress (entered, not exited) at log position `pos`?
    fn hook_in_progress(&self, a: usize, pos: usize) -> bool {
        let x = &self.actors[a];
        if let Some(e) = x.ended_pos() {
            if e < pos {
                return false;
            }
        }
        if let Some(p) = x.first_hook_panic() {
            if p < pos {
                return false;
            }
        }
        // start
        if let Some(se) = x.start_enter.first() {
            if *se < pos && x.start_exit.map(|s| s.0 > pos).unwrap_or(true) {
                return true;
            }
        }
        // handler
        if let Some((hp, uid)) = x.henter.iter().rev().find(|h| h.0 < pos) {
            let closed = x
                .hexit
                .iter()
                .chain(x.hpanic.iter())
                .any(|(p, u)| u == uid && *p > *hp && *p < pos);
            if !closed {
                return true;
            }
        }
        // stop
        if let Some((sp, _, _)) = x.stop_enter.iter().rev().find(|s| s.0 < pos) {
            let closed = x.stop_exit.iter().any(|(p, _)| *p > *sp && *p < pos);
            if !closed {
                return true;
            }
        }
        false
    }
    /// an accepted tell not yet taken, or an accepted stop marker not yet consumed, at `pos` (SIM only: log order is exact)
    fn queued_for_sure(&self, a: usize, pos: usize) -> bool {
        if !self.sim() {
            return false;
        }
        let x = &self.actors[a];
        let c = x.c().unwrap_or(usize::MAX);
        if c < pos {
            return false;
        }
        for op in x.msgs.iter() {
            let o = &self.ops[op];
            if o.accepted_tell() && o.end.as_ref().unwrap().0 < pos {
                let handled = self.henter.get(&o.uid).map(|h| h[0] < pos).unwrap_or(false);
                if !handled {
                    return true;
                }
            }
        }
        // an ask that certainly entered the mailbox sits there until the actor takes it - whether or not its caller is still
        // waiting (timed out, future dropped): the envelope is a queued message like any other
        for op in x.msgs.iter() {
            let o = &self.ops[op];
            if o.kind.ask_family() && o.s < pos && self.certainly_accepted(o) {
                let handled = self.henter.get(&o.uid).map(|h| h[0] < pos).unwrap_or(false);
                if !handled {
                    return true;
                }
            }
        }
        for op in x.stops.iter() {
            let o = &self.ops[op];
            if let Some((e, Res::Ok(_), _)) = &o.end {
                // a stop that returned while the mailbox was open queued a marker
                if *e < pos && *e < c && x.ended_pos().map(|p| p > pos).unwrap_or(true) {
                    return true;
                }
            }
        }
        false
    }
    /// SIM only: was this call certainly accepted by the mailbox at the instant it started? True when fewer than `capacity`
    /// earlier operations on the actor could still occupy a slot (so nobody is parked and a slot is free: the send completes in
    /// its first poll), the actor has finished on_start or not (the mailbox is open from spawn) and has not begun to stop.
    pub fn certainly_accepted(&self, o: &OpInfo) -> bool {
        if !self.sim() || !o.kind.is_msg() || o.panicked.is_some() || o.starved {
            // a call that panicked in its caller (deadlock report) never reached the mailbox
            return false;
        }
        let x = &self.actors[o.actor];
        if x.c().map(|c| c < o.s).unwrap_or(false) || x.ended_pos().map(|e| e < o.s).unwrap_or(false) {
            return false;
        }
        if x.first_hook_panic().map(|p| p < o.s).unwrap_or(false) || (x.start_exit.map(|s| s.0 < o.s && s.1 != Out::Ok).unwrap_or(false)) {
            return false;
        }
        if matches!(o.ctx, Ctx::Detached(_)) {
            return false;
        }
        let cap = self.meta.caps[o.actor];
        let mut cnt = 0usize;
        for op in x.msgs.iter().chain(x.stops.iter()) {
            let q = &self.ops[op];
            if q.s >= o.s || q.op == o.op {
                continue;
            }
            let taken = if q.kind == OpKind::Stop { false } else { self.henter.get(&q.uid).map(|h| h[0] < o.s).unwrap_or(false) };
            let rejected = match &q.end {
                Some((e, res, _)) if *e < o.s => !res.is_ok() && (q.kind.tell_family() || q.kind == OpKind::Stop || *res == Res::Send),
                _ => false,
            };
            if !taken && !rejected {
                cnt += 1;
            }
        }
        cnt < cap
    }
    /// message ops to `a` that are certainly still inside the system at `pos`: started, not closed,
    /// or accepted tells not yet taken
    fn pending_work(&self, a: usize, pos: usize) -> bool {
        for op in self.actors[a].msgs.iter().chain(self.actors[a].stops.iter()) {
            let o = &self.ops[op];
            if o.s >= pos {
                continue;
            }
            match o.closed_pos() {
                None => return true,
                Some(c) if c > pos => return true,
                _ => {}
            }
            if o.accepted_tell() {
                let handled = self.henter.get(&o.uid).map(|h| h[0] < pos).unwrap_or(false);
                if !handled {
                    return true;
                }
            }
        }
        false
    }
}

pub fn check_all(log: &[Ev], meta: &Meta) -> Findings {
    let ix = Ix::build(log, meta);
    let mut f = Findings::default();
    harness_notes(&ix, &mut f);
    lazy_futures(&ix, &mut f);
    c01(&ix, &mut f);
    c02(&ix, &mut f);
    c03(&ix, &mut f);
    c04(&ix, &mut f);
    c05(&ix, &mut f);
    c06(&ix, &mut f);
    c07(&ix, &mut f);
    c08(&ix, &mut f);
    c09(&ix, &mut f);
    c10(&ix, &mut f);
    c11(&ix, &mut f);
    c13(&ix, &mut f);
    c14_15(&ix, &mut f);
    c19_tell_result(&ix, &mut f);
    c20(&ix, &mut f);
    f
}

fn lazy_futures(ix: &Ix, f: &mut Findings) {
    // an operation takes effect when it is awaited, not when its future is created (and never if it is dropped unpolled)
    for (i, e) in ix.log.iter().enumerate() {
        if let K::Lazy { uid, what } = &e.k {
            match *what {
                "dropped-unpolled" => {
                    f.o("C01.unpolled");
                    if let Some(h) = ix.henter.get(uid) {
                        f.v("C01.unpolled", None, format!("message uid {uid}: the call's future was dropped without ever being polled (log position {i}) yet the message was handled at {:?}", h));
                    }
                }
                "created" => {
                    if let Some(o) = ix.ops.values().find(|o| o.uid == *uid && o.kind.is_msg()) {
                        f.o("C01.unpolled");
                        if let Some(h) = ix.henter.get(uid) {
                            if h[0] < o.s {
                                f.v("C01.unpolled", Some(o.actor), format!("message uid {uid} was handled at log position {} before its call was first polled at {}", h[0], o.s));
                            }
                        }
                    }
                }
                _ => {}
            }
        }
    }
}

fn harness_notes(ix: &Ix, f: &mut Findings) {
    for e in ix.log {
        if let K::Note(s) = &e.k {
            if let Some(rest) = s.strip_prefix("VIOL:") {
                let clause: &'static str = if rest.starts_with("C16 a client") {
                    "C16.equal_effect"
                } else if rest.starts_with("C16") {
                    "C16.views"
                } else if rest.starts_with("C11") {
                    "C11.identity"
                } else if rest.starts_with("C03") {
                    "C03.returns"
                } else if rest.starts_with("C17") {
                    "C17.same_rules"
                } else if rest.starts_with("C20") {
                    "C20.readable"
                } else {
                    "C16.views"
                };
                f.v(clause, None, rest.to_string());
            }
        }
    }
}

// ------------------------------------------------------------------------------------------ C01
fn c01(ix: &Ix, f: &mut Findings) {
    // "handled" means handled as a whole: a handler that was entered runs to its end (or panics) before the actor does anything
    // else - it is not abandoned at an await point because, say, the asker lost interest
    for a in 0..ix.actors.len() {
        let cancelled = matches!(&ix.actors[a].ended, Some((_, sum, _)) if sum.cancelled);
        let mut open: Option<(usize, u64)> = None;
        for (i, he) in hook_trace(ix, a) {
            let next = match he {
                HE::HExit(u) | HE::HPanic(u) => {
                    if open.map(|o| o.1) == Some(u) {
                        open = None;
                    }
                    continue;
                }
                // a call made by the hook panicked in it (deadlock report): the hook unwinds
                HE::CallPanic => {
                    open = None;
                    continue;
                }
                HE::HEnter(u) => Some((i, u)),
                HE::RunPoll(_) | HE::StopEnter(_) | HE::Ended => None,
                _ => continue,
            };
            if let Some((p, u)) = open.take() {
                if !cancelled {
                    f.v("C01.whole", Some(a), format!("actor {a}: the handler of message uid {u} was entered at log position {p} and never finished, yet the actor went on to {:?} at {i}: an accepted message is handled as a whole", he));
                }
            }
            if next.is_some() {
                f.o("C01.whole");
                open = next;
            }
        }
    }
    for (uid, hs) in &ix.henter {
        f.o("C01.once");
        if hs.len() > 1 {
            f.v("C01.once", None, format!("message uid {uid} was handled {} times (log positions {:?})", hs.len(), hs));
        }
    }
    for o in ix.ops.values() {
        if !o.kind.is_msg() {
            continue;
        }
        let Some(res) = o.res() else { continue };
        let handled = ix.henter.contains_key(&o.uid);
        if o.kind.tell_family() && !res.is_ok() {
            f.o("C01.rejected");
            if handled {
                f.v("C01.rejected", Some(o.actor), format!("{:?} uid {} returned {:?} but the message was handled", o.kind, o.uid, res));
            }
        }
        if o.kind.ask_family() && *res == Res::Send {
            f.o("C01.rejected");
            if handled {
                f.v("C01.rejected", Some(o.actor), format!("{:?} uid {} returned Err(Send) but the message was handled", o.kind, o.uid));
            }
        }
    }
    // accepted before stop()/last drop on a healthy actor => handled exactly once before on_stop
    for a in 0..ix.actors.len() {
        if ix.exempt(a) {
            continue;
        }
        let x = &ix.actors[a];
        if x.ended.is_none() {
            continue; // still running at the end of the history: nothing to conclude yet (C07 reports that)
        }
        // "before stop() was requested or the last reference was dropped": whatever was sent once on_stop has begun (only the
        // hook itself can still do that on an unreferenced actor) is after that point
        let cutoff = ix.first_stop_start(a).unwrap_or(usize::MAX).min(x.c().unwrap_or(usize::MAX));
        // asks (also timed-out or cancelled ones) that certainly entered the mailbox before any stop() was requested
        for op in &x.msgs {
            let o = &ix.ops[op];
            if !o.kind.ask_family() || o.s >= cutoff || !ix.certainly_accepted(o) {
                continue;
            }
            f.o("C01.accepted_ask");
            let ok = match (ix.henter.get(&o.uid), x.c()) {
                (Some(h), Some(c)) => h.len() == 1 && h[0] < c,
                (Some(h), None) => h.len() == 1,
                (None, _) => false,
            };
            if !ok {
                f.v(
                    "C01.accepted",
                    Some(a),
                    format!("{:?} uid {} to actor {a} certainly entered the mailbox when it was sent (a slot was free, nobody was waiting), no stop() had been requested, the actor was neither killed nor crashed, yet it was not handled exactly once before on_stop (call result {:?}, handled at {:?})", o.kind, o.uid, o.res(), ix.henter.get(&o.uid)),
                );
            }
        }
        for op in &x.msgs {
            let o = &ix.ops[op];
            if !o.accepted_tell() {
                continue;
            }
            let e = o.end.as_ref().unwrap().0;
            if e >= cutoff {
                continue;
            }
            f.o("C01.accepted");
            match ix.henter.get(&o.uid) {
                None => f.v(
                    "C01.accepted",
                    Some(a),
                    format!("{:?} uid {} to actor {a} returned Ok before any stop() was requested, the actor was neither killed nor crashed, yet the message was never handled", o.kind, o.uid),
                ),
                Some(h) => {
                    if let Some(c) = x.c() {
                        if h[0] > c {
                            f.v("C01.accepted", Some(a), format!("uid {} handled after on_stop began (actor {a})", o.uid));
                        }
                    }
                }
            }
        }
    }
}

// ------------------------------------------------------------------------------------------ C02
fn c02(ix: &Ix, f: &mut Findings) {
    for a in 0..ix.actors.len() {
        let x = &ix.actors[a];
        let ops: Vec<&OpInfo> = x.msgs.iter().map(|o| &ix.ops[o]).collect();
        for p in &ops {
            if !p.accepted_tell() {
                continue;
            }
            let pe = p.end.as_ref().unwrap().0;
            for q in &ops {
                if pe >= q.s {
                    continue;
                }
                if let Some(hq) = ix.henter.get(&q.uid) {
                    f.o("C02.order");
                    match ix.henter.get(&p.uid) {
                        Some(hp) => {
                            if hp[0] > hq[0] {
                                f.v("C02.order", Some(a), format!("actor {a}: uid {} ({:?}) was accepted (returned Ok) before uid {} ({:?}) was sent, but was handled after it", p.uid, p.kind, q.uid, q.kind));
                            }
                        }
                        None => f.v("C02.order", Some(a), format!("actor {a}: uid {} handled although the earlier-accepted uid {} was never handled", q.uid, p.uid)),
                    }
                }
            }
        }
        // any two handled messages whose calls did not overlap are handled in call order: a message that is handled at all
        // was pushed during its own call (asks, timed-out and cancelled calls included)
        for p in &ops {
            let Some(pc) = p.closed_pos() else { continue };
            let Some(hp) = ix.henter.get(&p.uid) else { continue };
            for q in &ops {
                if pc >= q.s {
                    continue;
                }
                if let Some(hq) = ix.henter.get(&q.uid) {
                    f.o("C02.order_any");
                    if hp[0] > hq[0] {
                        f.v("C02.order", Some(a), format!("actor {a}: the call for uid {} ({:?}) had finished before the call for uid {} ({:?}) began, both were handled, but in the opposite order", p.uid, p.kind, q.uid, q.kind));
                    }
                }
            }
        }
        // stop(): nothing sent after stop() returned is ever handled
        for sop in &x.stops {
            let s = &ix.ops[sop];
            let Some((se, Res::Ok(_), _)) = &s.end else { continue };
            for q in &ops {
                if q.s > *se {
                    f.o("C02.after_stop");
                    if ix.henter.contains_key(&q.uid) {
                        f.v("C02.after_stop", Some(a), format!("actor {a}: uid {} was sent after stop() had returned, yet it was handled", q.uid));
                    }
                }
            }
        }
        if !ix.exempt(a) && x.ended.is_some() {
            let cut = ix.first_stop_start(a).unwrap_or(usize::MAX);
            for p in &ops {
                if p.kind.ask_family() && p.s < cut && ix.certainly_accepted(p) {
                    f.o("C02.before_stop");
                    let ok = match (ix.henter.get(&p.uid), x.c()) {
                        (Some(h), Some(c)) => h[0] < c,
                        (Some(_), None) => true,
                        (None, _) => false,
                    };
                    if !ok {
                        f.v("C02.before_stop", Some(a), format!("actor {a}: {:?} uid {} certainly entered the mailbox before any stop() was called but was not handled before on_stop (it dropped out of the handling sequence)", p.kind, p.uid));
                    }
                }
            }
        }
        // everything accepted before stop() was called is handled before on_stop (healthy actors)
        if !ix.exempt(a) && x.ended.is_some() {
            if let Some(cut) = ix.first_stop_start(a) {
                for p in &ops {
                    if p.accepted_tell() && p.end.as_ref().unwrap().0 < cut {
                        f.o("C02.before_stop");
                        let ok = match (ix.henter.get(&p.uid), x.c()) {
                            (Some(h), Some(c)) => h[0] < c,
                            (Some(_), None) => true,
                            (None, _) => false,
                        };
                        if !ok {
                            f.v("C02.before_stop", Some(a), format!("actor {a}: uid {} accepted before stop() was called but not handled before on_stop", p.uid));
                        }
                    }
                }
            }
        }
    }
}

// ------------------------------------------------------------------------------------------ C03
fn c03(ix: &Ix, f: &mut Findings) {
    for o in ix.ops.values() {
        if !o.kind.ask_family() {
            continue;
        }
        let Some((epos, res, _)) = &o.end else { continue };
        match res {
            Res::Ok(v) => {
                f.o("C03.integrity");
                match ix.hexit.get(&o.uid) {
                    Some((hp, rep, _)) if rep == v && hp < epos => {
                        if let Rep::J(_) = v {
                            match ix.jointask.get(&o.uid) {
                                Some((jp, Out::Ok)) if jp < epos => {}
                                other => f.v("C03.ask_join", Some(o.actor), format!("ask_join uid {} returned {:?} but the spawned task logged {:?}", o.uid, v, other)),
                            }
                        }
                    }
                    other => f.v(
                        "C03.integrity",
                        Some(o.actor),
                        format!("{:?} uid {} returned Ok({:?}) but the handler for that request logged {:?}", o.kind, o.uid, v, other.map(|x| (&x.1, x.0 < *epos))),
                    ),
                }
            }
            Res::Send | Res::Receive | Res::Timeout if o.kind == OpKind::AskJoin || (o.mty == 'J' && o.kind == OpKind::Ask) => {
                // the handler produced its JoinHandle and the asker was still waiting for it: the result must be the task's output
                if let Some((hp, _, _)) = ix.hexit.get(&o.uid) {
                    if hp < epos {
                        f.o("C03.ask_join");
                        f.v("C03.ask_join", Some(o.actor), format!("ask_join uid {} returned {:?} although the handler had returned its JoinHandle (task outcome {:?})", o.uid, res, ix.jointask.get(&o.uid)));
                    }
                }
            }
            Res::Join(panic) => {
                f.o("C03.ask_join");
                match ix.jointask.get(&o.uid) {
                    Some((_, Out::Panic)) if *panic => {}
                    Some((_, Out::Err)) if !*panic => {}
                    other => f.v("C03.ask_join", Some(o.actor), format!("ask_join uid {} returned Join(panic={panic}) but the spawned task logged {:?}", o.uid, other)),
                }
            }
            _ => {}
        }
    }
    // an operation returns a result; it never panics in its caller (the only documented panic is the deadlock report inside an actor hook)
    for o in ix.ops.values() {
        if let Some((_, msg)) = &o.panicked {
            let scripted_unwind = msg.starts_with("scripted");
            let deadlock_in_hook = msg.contains("Deadlock detected") && matches!(o.ctx, Ctx::Hook(..));
            if msg.contains("Deadlock detected") && !matches!(o.ctx, Ctx::Hook(..)) {
                // only asks made from inside an actor's hooks are ever tracked: a caller that is not an actor cannot be "in a cycle"
                f.v("C15.sound", Some(o.actor), format!("[non-actor-tracked] {:?} uid {} issued by {:?} - not an actor - panicked with a deadlock report: {msg:?}", o.kind, o.uid, o.ctx));
            }
            if !scripted_unwind && !deadlock_in_hook {
                let clause = if o.kind.has_timeout() { "C10.returns" } else if o.kind == OpKind::Kill { "C06.nonblocking" } else { "C03.returns" };
                f.v(clause, Some(o.actor), format!("{:?} uid {} (issued by {:?}) panicked in its caller instead of returning a result: {msg:?}", o.kind, o.uid, o.ctx));
            }
        }
        if o.kind.is_msg() && o.closed_pos().is_some() {
            f.o(if o.kind.has_timeout() { "C10.returns" } else { "C03.returns" });
        }
    }
    // completion: at the end of the history nothing is pending
    let done = ix.phases.contains_key("final") || ix.meta.mode == Mode::Mt;
    if done {
        for o in ix.ops.values() {
            let target_ended = ix.actors[o.actor].ended.is_some();
            if o.kind.is_msg() && target_ended {
                f.o("C03.complete");
            }
            if o.closed_pos().is_none() {
                let clause = if o.kind.is_msg() || o.kind == OpKind::Stop { "C03.complete" } else { "C06.nonblocking" };
                f.v(
                    clause,
                    Some(o.actor),
                    format!(
                        "{:?} uid {} to actor {} (issued by {:?}) never returned although the history is quiescent; target ended: {}",
                        o.kind, o.uid, o.actor, o.ctx, target_ended
                    ),
                );
            }
        }
        for (a, x) in ix.actors.iter().enumerate() {
            if !x.start_enter.is_empty() || ix.sim() {
                // strong handles the reference model still knows at the end (e.g. two actors holding each other) legitimately keep an actor alive
                let last_model = ix
                    .log
                    .iter()
                    .rev()
                    .find_map(|e| match &e.k {
                        K::RefOp { actor, model, .. } if *actor == a => Some(*model),
                        _ => None,
                    })
                    .unwrap_or(0);
                let cause = !x.kills.is_empty() || x.stops.iter().any(|k| matches!(&ix.ops[k].end, Some((_, Res::Ok(_), _)))) || !x.started_ok() || x.run_err().is_some() || x.first_hook_panic().is_some();
                if last_model > 0 && !cause {
                    continue;
                }
                f.o("C07.ends");
                if x.ended.is_none() {
                    f.v("C07.ends", Some(a), format!("actor {a} has not ended at the end of the history although every reference was dropped / it was stopped or killed"));
                }
            }
        }
    }
    // operations started after the actor's JoinHandle resolved fail (and immediately, in virtual time)
    for (a, x) in ix.actors.iter().enumerate() {
        let Some((epos, _, _)) = &x.ended else { continue };
        for op in &x.msgs {
            let o = &ix.ops[op];
            if o.s > *epos {
                if let Some((_, res, t)) = &o.end {
                    f.o("C03.after_end");
                    if res.is_ok() {
                        f.v("C03.after_end", Some(a), format!("{:?} uid {} sent after actor {a} had ended returned {:?}", o.kind, o.uid, res));
                    } else if ix.sim() && *t != o.ts {
                        f.v("C10.prompt_failure", Some(a), format!("{:?} uid {} to ended actor {a} failed only after {} ms", o.kind, o.uid, t - o.ts));
                    }
                }
            }
        }
    }
}

// ------------------------------------------------------------------------------------------ C04
#[derive(Clone, Copy, Debug, PartialEq)]
enum HE {
    StartEnter,
    StartExit(Out),
    HEnter(u64),
    HExit(u64),
    HPanic(u64),
    RunPoll(u32),
    RunDone(u32, Out),
    RunCancel(u32),
    StopEnter(bool),
    StopExit(Out),
    CallPanic,
    Ended,
}

fn hook_trace(ix: &Ix, a: usize) -> Vec<(usize, HE)> {
    let mut v = vec![];
    for (i, e) in ix.log.iter().enumerate() {
        let he = match &e.k {
            K::StartEnter { actor } if *actor == a => HE::StartEnter,
            K::StartExit { actor, out } if *actor == a => HE::StartExit(*out),
            K::HEnter { actor, uid } if *actor == a => HE::HEnter(*uid),
            K::HExit { actor, uid, .. } if *actor == a => HE::HExit(*uid),
            K::HPanic { actor, uid } if *actor == a => HE::HPanic(*uid),
            K::RunPoll { actor, inv } if *actor == a => HE::RunPoll(*inv),
            K::RunDone { actor, inv, out } if *actor == a => HE::RunDone(*inv, *out),
            K::RunCancel { actor, inv } if *actor == a => HE::RunCancel(*inv),
            K::StopEnter { actor, killed } if *actor == a => HE::StopEnter(*killed),
            K::StopExit { actor, out } if *actor == a => HE::StopExit(*out),
            K::Ended { actor, .. } if *actor == a => HE::Ended,
            K::CallPanicked { op, .. } => match ix.ops.get(op) {
                Some(o) if matches!(o.ctx, Ctx::Hook(x, _) if x == a) => HE::CallPanic,
                _ => continue,
            },
            _ => continue,
        };
        v.push((i, he));
    }
    v
}

fn c04(ix: &Ix, f: &mut Findings) {
    for a in 0..ix.actors.len() {
        let x = &ix.actors[a];
        let tr = hook_trace(ix, a);
        if tr.is_empty() {
            continue;
        }
        f.o("C04.grammar");
        // automaton
        #[derive(PartialEq, Debug, Clone, Copy)]
        enum S {
            Init,
            InStart,
            Idle,
            InHandler(u64),
            InRun(u32),
            InStop,
            Stopped,
            Dead,
            Over,
        }
        let mut s = S::Init;
        let mut starts = 0;
        let mut stops = 0;
        let mut bad: Option<String> = None;
        for (pos, he) in &tr {
            let ns = match (s, *he) {
                (S::Init, HE::StartEnter) => {
                    starts += 1;
                    S::InStart
                }
                (S::InStart, HE::StartExit(Out::Ok)) => S::Idle,
                (S::InStart, HE::StartExit(_)) => S::Dead,
                (S::InStart, HE::CallPanic) => S::Dead,
                (S::Idle, HE::HEnter(u)) => S::InHandler(u),
                (S::InHandler(u), HE::HExit(v)) if u == v => S::Idle,
                (S::InHandler(u), HE::HPanic(v)) if u == v => S::Dead,
                // raised by the message's on_tell_result, right after the handler returned
                (S::Idle, HE::HPanic(_)) => S::Dead,
                (S::InHandler(_), HE::CallPanic) => S::Dead,
                (S::Idle, HE::RunPoll(i)) => S::InRun(i),
                (S::InRun(i), HE::RunPoll(j)) if i == j => S::InRun(i),
                (S::InRun(i), HE::RunDone(j, Out::Panic)) if i == j => S::Dead,
                (S::InRun(i), HE::RunDone(j, _)) if i == j => S::Idle,
                (S::InRun(i), HE::RunCancel(j)) if i == j => S::Idle,
                (S::InRun(i), HE::CallPanic) => S::InRun(i), // the unwinding is reported by RunDone(Panic)
                (S::Idle, HE::StopEnter(_)) => {
                    stops += 1;
                    S::InStop
                }
                (S::InStop, HE::StopExit(Out::Panic)) => S::Dead,
                (S::InStop, HE::StopExit(_)) => S::Stopped,
                (S::InStop, HE::CallPanic) => S::Dead,
                (S::Stopped, HE::Ended) | (S::Dead, HE::Ended) => S::Over,
                (S::Dead, HE::CallPanic) => S::Dead, // an in-flight call dropped by the unwinding hook
                (S::Dead, HE::StopExit(Out::Panic)) => S::Dead,
                (S::Dead, HE::RunDone(_, Out::Panic)) => S::Dead,
                (st, ev) => {
                    bad = Some(format!("hook event {:?} at log position {pos} is not allowed in lifecycle state {:?}", ev, st));
                    break;
                }
            };
            s = ns;
        }
        if let Some(b) = bad {
            f.v("C04.grammar", Some(a), format!("actor {a}: {b}; hook trace: {:?}", tr.iter().map(|t| t.1).collect::<Vec<_>>()));
            continue;
        }
        if starts != 1 {
            f.v("C04.start_once", Some(a), format!("actor {a}: on_start ran {starts} times"));
        }
        if stops > 1 {
            f.v("C04.stop_once", Some(a), format!("actor {a}: on_stop ran {stops} times"));
        }
        // on_stop runs exactly when the actor ends by stop / kill / refs gone / on_run error
        if let Some((_, sum, _)) = &x.ended {
            f.o("C04.stop_iff");
            let panic_before_stop = x.first_hook_panic().map(|p| x.c().map(|c| p < c).unwrap_or(true)).unwrap_or(false);
            if !x.started_ok() || panic_before_stop {
                if stops != 0 {
                    f.v("C04.stop_iff", Some(a), format!("actor {a}: on_stop ran after a failed on_start or after a panic"));
                }
            } else if stops != 1 {
                f.v("C04.stop_iff", Some(a), format!("actor {a} ended ({:?}) without a panic but on_stop ran {stops} times", sum.completed));
            }
        }
        // killed argument
        if let Some((c, killed, _)) = x.stop_enter.first() {
            f.o("C04.killed_arg");
            let kill_started_before = x.kills.iter().any(|k| ix.ops[k].s < *c);
            if *killed && !kill_started_before {
                f.v("C04.killed_arg", Some(a), format!("actor {a}: on_stop(killed=true) although no kill() had been called before it began"));
            }
            if !*killed {
                // a kill() that returned before on_stop began must be reported, unless on_run's own error ended the actor first
                let returned_before: Vec<usize> = x
                    .kills
                    .iter()
                    .filter_map(|k| ix.ops[k].end.as_ref().map(|e| e.0))
                    .filter(|e| e < c)
                    .collect();
                if let Some(k) = returned_before.iter().min() {
                    let run_err_between = x.run_done.iter().any(|r| r.2 == Out::Err && r.0 > *k && r.0 < *c);
                    let strict = ix.sim() || (x.stops.is_empty() && x.run_err().is_none());
                    // MT: a kill racing with the drop of the last reference / a stop marker may lose; only assert when nothing else could have ended the actor
                    let others_could_end = !ix.sim() && ix.log[..*c].iter().any(|e| matches!(&e.k, K::RefOp { actor, model: 0, .. } if *actor == a));
                    if strict && !run_err_between && !others_could_end {
                        f.v("C04.killed_arg", Some(a), format!("actor {a}: kill() returned at log position {k}, on_stop began later at {c} with killed=false"));
                    }
                }
            }
        }
    }
}

// ------------------------------------------------------------------------------------------ C05
fn c05(ix: &Ix, f: &mut Findings) {
    for a in 0..ix.actors.len() {
        let x = &ix.actors[a];
        let Some((_, sum, _)) = &x.ended else { continue };
        f.o("C05.result");
        if !sum.law_failures.is_empty() {
            f.v("C05.accessors", Some(a), format!("actor {a}: ActorResult query methods disagree with its fields: {:?}", sum.law_failures));
        }
        let hook_panic = x.first_hook_panic().is_some();
        if sum.cancelled {
            f.v("C05.result", Some(a), format!("actor {a}: JoinHandle reports a cancelled task"));
            continue;
        }
        if hook_panic {
            match &sum.panic {
                None => f.v("C05.panic", Some(a), format!("actor {a}: a hook panicked but the JoinHandle produced a normal result: {:?}", sum)),
                Some(p) => {
                    f.o("C05.panic");
                    let first = x.first_hook_panic().unwrap();
                    let call_panic = x.hook_call_panics.iter().find(|h| h.0 == first).map(|h| h.2.clone());
                    let expected: String = if let Some(m) = call_panic {
                        m
                    } else if matches!(x.start_exit, Some((_, Out::Panic))) {
                        "scripted start panic".to_string()
                    } else {
                        "scripted".to_string()
                    };
                    let expected = expected.as_str();
                    if !p.contains(expected) {
                        f.v("C05.panic", Some(a), format!("actor {a}: panic payload {p:?} is not the one the failing hook raised ({expected})"));
                    }
                }
            }
            continue;
        }
        if let Some(p) = &sum.panic {
            f.v("C05.panic", Some(a), format!("actor {a}: JoinHandle reports panic {p:?} but no hook panicked"));
            continue;
        }
        // normal results
        let stop = x.stop_enter.first();
        let stop_out = x.stop_exit.first().map(|s| s.1);
        let (exp_completed, exp_phase, exp_killed, exp_err, exp_actor): (bool, Option<&str>, bool, Option<String>, bool) = if !x.started_ok() {
            (false, Some("OnStart"), false, Some(format!("start-err-{a}")), false)
        } else if x.run_err().is_some() {
            let ph = if stop_out == Some(Out::Err) { "OnRunThenOnStop" } else { "OnRun" };
            (false, Some(ph), false, Some(format!("run-err-{a}")), true)
        } else if stop_out == Some(Out::Err) {
            (false, Some("OnStop"), stop.map(|s| s.1).unwrap_or(false), Some(format!("stop-err-{a}")), true)
        } else {
            (true, None, stop.map(|s| s.1).unwrap_or(false), None, true)
        };
        // killed, judged by the cause and not by what on_stop was told: a kill() that had returned before on_stop began
        // (and that no on_run error pre-empted) ended the actor; no kill() call at all before the end means it did not
        if let (Some(k), Some((c, _, _))) = (sum.killed, x.stop_enter.first()) {
            f.o("C05.killed");
            let started_before = x.kills.iter().any(|op| ix.ops[op].s < *c);
            let returned_before = x.kills.iter().filter_map(|op| ix.ops[op].end.as_ref().map(|e| e.0)).filter(|e| e < c).min();
            if k && !started_before {
                f.v("C05.killed", Some(a), format!("actor {a}: the result says killed=true but no kill() had been called before on_stop began"));
            }
            if !k {
                if let Some(kp) = returned_before {
                    let run_err_between = x.run_done.iter().any(|r| r.2 == Out::Err && r.0 > kp && r.0 < *c);
                    let strict = ix.sim() || (x.stops.is_empty() && x.run_err().is_none());
                    let others_could_end = !ix.sim() && ix.log[..*c].iter().any(|e| matches!(&e.k, K::RefOp { actor, model: 0, .. } if *actor == a));
                    if strict && !run_err_between && !others_could_end {
                        f.v("C05.killed", Some(a), format!("actor {a}: kill() had returned at log position {kp}, before on_stop began at {c} (no on_run error in between), yet the result says killed=false"));
                    }
                }
            }
        }
        let got = (sum.completed, sum.phase.as_deref(), sum.killed, sum.err.clone(), sum.has_actor);
        let exp = (Some(exp_completed), exp_phase, Some(exp_killed), exp_err.clone(), Some(exp_actor));
        if got != exp {
            f.v("C05.result", Some(a), format!("actor {a}: JoinHandle result (completed, phase, killed, error, has_actor) = {:?} but the hooks that ran imply {:?}", got, exp));
        }
        // journal: the state left by every hook that ran
        if exp_actor {
            f.o("C05.state");
            let mut exp_j = vec!["start".to_string()];
            let mut runs = 0;
            for (_, he) in hook_trace(ix, a) {
                match he {
                    HE::HEnter(u) => exp_j.push(format!("h{u}")),
                    HE::RunDone(_, o) if o != Out::Panic => {
                        runs += 1;
                        exp_j.push(format!("run{runs}"));
                    }
                    HE::StopEnter(k) => exp_j.push(format!("stop:{k}")),
                    _ => {}
                }
            }
            if sum.journal.as_ref() != Some(&exp_j) {
                f.v("C05.state", Some(a), format!("actor {a}: returned actor state {:?} differs from the hooks that ran {:?}", sum.journal, exp_j));
            }
        }
    }
}

// ------------------------------------------------------------------------------------------ C06
fn c06(ix: &Ix, f: &mut Findings) {
    for o in ix.ops.values() {
        if o.kind != OpKind::Kill {
            continue;
        }
        f.o("C06.nonblocking");
        match &o.end {
            Some((e, res, _)) => {
                if !res.is_ok() {
                    f.v("C06.nonblocking", Some(o.actor), format!("kill() on actor {} returned {:?}", o.actor, res));
                }
                if ix.sim() && *e != o.s + 1 {
                    f.v("C06.nonblocking", Some(o.actor), format!("kill() on actor {} did not return in the step it was called (other events in between: {:?})", o.actor, &ix.log[o.s + 1..*e]));
                }
            }
            None => {} // reported by C03.complete logic under C06
        }
    }
    for a in 0..ix.actors.len() {
        let x = &ix.actors[a];
        if !x.started_ok() {
            continue;
        }
        // first kill that returned
        let Some(k) = x.kills.iter().filter_map(|k| ix.ops[k].end.as_ref().map(|e| e.0)).min() else { continue };
        let kop = x.kills.iter().map(|k| &ix.ops[k]).find(|o| o.end.as_ref().map(|e| e.0) == Some(k)).unwrap();
        let already_stopping = x.c().map(|c| c < k).unwrap_or(false);
        if already_stopping {
            continue;
        }
        if let Some(e) = x.ended_pos() {
            if e < k {
                continue;
            }
        }
        let panic_pos = x.first_hook_panic();
        let crashed_first = panic_pos.map(|p| x.c().map(|c| p < c).unwrap_or(true)).unwrap_or(false);
        // at most one further handler starts
        let after: Vec<u64> = x.henter.iter().filter(|h| h.0 > k).map(|h| h.1).collect();
        f.o("C06.preempt");
        if after.len() > 1 {
            f.v("C06.preempt", Some(a), format!("actor {a}: kill() returned at log position {k}; {} further handlers started afterwards (uids {:?})", after.len(), after));
        }
        if crashed_first {
            continue;
        }
        let run_err_after = x.run_done.iter().any(|r| r.2 == Out::Err && r.0 > k);
        // on_stop(killed=true) follows
        if ix.phases.contains_key("final") || ix.meta.mode == Mode::Mt {
            match x.stop_enter.first() {
                Some((c, killed, _)) => {
                    let strict = ix.sim() || (x.stops.is_empty() && !ix.log[..*c].iter().any(|e| matches!(&e.k, K::RefOp { actor, model: 0, .. } if *actor == a)));
                    if !*killed && !run_err_after && strict {
                        f.v("C06.killed", Some(a), format!("actor {a}: kill() returned before on_stop began, but on_stop got killed=false"));
                    }
                    // a kill that finds the actor between hooks takes effect in that very instant: nothing the actor still
                    // owes anybody (slots reserved for parked senders, queued messages) stands between kill() and on_stop
                    if ix.sim() && *killed && x.start_exit.map(|s| s.0 < k).unwrap_or(false) && !ix.hook_in_progress(a, k) {
                        f.o("C06.prompt");
                        let kt = ix.log[k].t;
                        let st = ix.log[*c].t;
                        if st != kt {
                            f.v("C06.prompt", Some(a), format!("actor {a}: kill() returned at {kt} ms (log position {k}) while no hook was in progress, but on_stop(killed=true) only began at {st} ms (log position {c})"));
                        }
                    }
                    if *killed {
                        f.o("C06.killed");
                        if let Some((_, sum, _)) = &x.ended {
                            if sum.panic.is_none() && sum.killed != Some(true) {
                                f.v("C06.killed", Some(a), format!("actor {a}: ended by kill() but the result reports killed={:?}", sum.killed));
                            }
                            // the cleanup a kill starts is run once and to its end: further kill() calls - also ones that arrive
                            // while on_stop(killed=true) is suspended - neither abandon nor restart it
                            if !sum.cancelled {
                                f.o("C06.cleanup_once");
                                let finished = x.stop_exit.len();
                                // (a deadlock report raised by an ask inside on_stop unwinds it without a StopExit event)
                                let stop_panicked = x.stop_exit.iter().any(|s| s.1 == Out::Panic) || sum.panic.is_some();
                                if x.stop_enter.len() != 1 || (finished != 1 && !stop_panicked) {
                                    let later_kills = x.kills.iter().filter(|op| ix.ops[*op].s > *c).count();
                                    f.v(
                                        "C06.cleanup_once",
                                        Some(a),
                                        format!("actor {a}: ended by kill(): on_stop was entered {} time(s) (killed flags {:?}) and finished {} time(s); {later_kills} further kill() call(s) were made after on_stop(killed=true) had begun - the cleanup must run once and to completion", x.stop_enter.len(), x.stop_enter.iter().map(|s| s.1).collect::<Vec<_>>(), finished),
                                    );
                                }
                            }
                        }
                    }
                    // nothing but the hook in progress (and at most one handler) between the kill and on_stop: in particular on_run makes no progress
                    let self_run_kill = matches!(kop.ctx, Ctx::Hook(h, HookKind::Run) if h == a);
                    if ix.sim() && !self_run_kill {
                        if let Some((p, inv)) = x.run_poll.iter().find(|r| r.0 > k && r.0 < *c) {
                            f.v("C06.asap", Some(a), format!("actor {a}: on_run (invocation {inv}) was polled at {p} after kill() had returned at {k} and before on_stop"));
                        }
                    }
                }
                None => {
                    if x.ended.is_some() && !run_err_after {
                        f.v("C06.killed", Some(a), format!("actor {a}: killed while running but on_stop never ran"));
                    }
                    // the history is over (quiescent, every gate open): a kill() that returned Ok has ended the actor
                    if ix.sim() && x.ended.is_none() && x.start_exit.map(|s| s.1 == Out::Ok).unwrap_or(false) && !ix.hook_in_progress(a, ix.log.len()) {
                        f.v("C06.prompt", Some(a), format!("actor {a}: kill() returned at log position {k}; at the end of the history no hook is in progress, yet on_stop never began and the actor has not ended"));
                    }
                }
            }
        }
        // leftovers are never handled and their asks fail
        if let Some(c) = x.c() {
            for op in &x.msgs {
                let o = &ix.ops[op];
                if o.kind.ask_family() && o.s < c && o.end.as_ref().map(|e| e.0 > c).unwrap_or(false) && !ix.henter.contains_key(&o.uid) {
                    f.o("C06.leftover");
                    if o.res().map(|r| r.is_ok()).unwrap_or(false) {
                        f.v("C06.leftover", Some(a), format!("actor {a}: ask uid {} left in the mailbox at kill time returned Ok", o.uid));
                    }
                }
            }
        }
    }
}

// ------------------------------------------------------------------------------------------ C07
fn c07(ix: &Ix, f: &mut Findings) {
    if !ix.sim() {
        c07_graceful(ix, f);
        return;
    }
    for &sp in &ix.samples {
        let K::Sample {
            actor: a,
            phase,
            finished,
            model,
            ..
        } = &ix.log[sp].k
        else {
            continue;
        };
        if phase.starts_with("client") || *phase == "post-mortem" {
            continue;
        }
        let a = *a;
        let x = &ix.actors[a];
        let ended = x.ended_pos().map(|e| e < sp).unwrap_or(false);
        if *finished != ended {
            // the watcher logs Ended in the same step the JoinHandle resolves
            f.v("C07.harness", Some(a), format!("sample at {sp}: JoinHandle finished={finished} but Ended logged={ended}"));
        }
        let cause_before = !x.started_ok() && x.start_exit.map(|s| s.0 < sp).unwrap_or(false)
            || x.kills.iter().any(|k| ix.ops[k].s < sp)
            // a stop() whose future was given up before it returned has queued no marker: it is no cause
            || x.stops.iter().any(|k| ix.ops[k].s < sp && !ix.ops[k].cancelled.map(|c| c < sp).unwrap_or(false))
            || x.run_err().map(|p| p < sp).unwrap_or(false)
            || x.first_hook_panic().map(|p| p < sp).unwrap_or(false);
        {
            let done_pos = x
                .stop_exit
                .first()
                .map(|s| s.0)
                .into_iter()
                .chain(x.first_hook_panic())
                .chain(x.start_exit.filter(|s| s.1 != Out::Ok).map(|s| s.0))
                .min();
            if let Some(dp) = done_pos {
                if dp < sp {
                    f.o("C07.resolves");
                    if !ended {
                        f.v("C07.resolves", Some(a), format!("actor {a}: its last hook finished (or panicked) at log position {dp} but at the quiescent instant {} ms (log position {sp}) its JoinHandle has still not resolved", ix.log[sp].t));
                    }
                }
            }
        }
        if *model >= 1 && !cause_before {
            // negative side: never ends on its own
            f.o("C07.stays");
            if ended || x.c().map(|c| c < sp).unwrap_or(false) {
                f.v("C07.stays", Some(a), format!("actor {a} ended (or began on_stop) by log position {sp} although {model} strong handle(s) exist and no stop/kill/error/panic occurred"));
            }
        }
        if !ended && *model == 0 && !ix.hook_in_progress(a, sp) && !ix.pending_work(a, sp) && x.start_exit.is_some() {
            // positive side: unreferenced and idle at a quiescent instant => must have ended
            f.o("C07.ends");
            f.v("C07.ends", Some(a), format!("actor {a} is unreferenced and idle at the quiescent instant {} ms (log position {sp}) but has not ended", ix.log[sp].t));
        }
        if ended && *model == 0 {
            f.o("C07.ends");
        }
        // stop accepted => ends by the next quiescent instant (healthy, nothing blocking it)
        if !ended && !ix.hook_in_progress(a, sp) && !ix.pending_work(a, sp) {
            let stop_accepted = x.stops.iter().any(|k| {
                let o = &ix.ops[k];
                matches!(&o.end, Some((e, Res::Ok(_), _)) if *e < sp)
            });
            if stop_accepted && x.started_ok() {
                f.v("C07.ends", Some(a), format!("actor {a}: stop() returned Ok before the quiescent instant at log position {sp}, nothing is pending, but the actor has not ended"));
            }
        }
    }
    // stop() is final: once it has been accepted the actor finishes what was accepted before and goes to on_stop -
    // it does not go on serving messages that were sent afterwards (which would postpone on_stop for as long as traffic lasts)
    for a in 0..ix.actors.len() {
        let x = &ix.actors[a];
        for sop in &x.stops {
            let s = &ix.ops[sop];
            let Some((se, Res::Ok(_), _)) = &s.end else { continue };
            for op in &x.msgs {
                let q = &ix.ops[op];
                if q.s > *se {
                    f.o("C07.stop_final");
                    if let Some(h) = ix.henter.get(&q.uid) {
                        f.v("C07.stop_final", Some(a), format!("actor {a}: stop() had returned Ok at log position {se}; uid {} was sent after that (position {}) and was still handled (position {}) instead of the actor going to on_stop", q.uid, q.s, h[0]));
                    }
                }
            }
        }
    }
    // probes: an actor held by a strong handle with no cause answers
    for o in ix.ops.values() {
        if o.kind != OpKind::Probe {
            continue;
        }
        let a = o.actor;
        let x = &ix.actors[a];
        let cause = !x.started_ok() || !x.kills.is_empty() || !x.stops.is_empty() || x.run_err().is_some() || x.first_hook_panic().is_some();
        if !cause {
            f.o("C07.probe");
            match o.res() {
                Some(Res::Ok(Rep::U(_))) => {}
                other => f.v("C07.probe", Some(a), format!("actor {a} is held by a strong handle and nothing ever stopped, killed or crashed it, yet a probe ask returned {:?}", other)),
            }
        }
    }
    // a stopped / unreferenced healthy actor finishes the work accepted before that point
    for (a, x) in ix.actors.iter().enumerate() {
        if ix.exempt(a) || x.ended.is_none() {
            continue;
        }
        let cutoff = ix.first_stop_start(a).unwrap_or(usize::MAX).min(x.c().unwrap_or(usize::MAX));
        for op in &x.msgs {
            let o = &ix.ops[op];
            let accepted = (o.accepted_tell() && o.end.as_ref().unwrap().0 < cutoff) || (o.kind.ask_family() && o.s < cutoff && ix.certainly_accepted(o));
            if !accepted {
                continue;
            }
            f.o("C07.work");
            let ok = match (ix.henter.get(&o.uid), x.c()) {
                (Some(h), Some(c)) => h[0] < c,
                (Some(_), None) => true,
                (None, _) => false,
            };
            if !ok {
                f.v("C07.work", Some(a), format!("actor {a} ended gracefully (stop / no reference left) but {:?} uid {}, accepted before that point, was not handled before on_stop", o.kind, o.uid));
            }
        }
    }
    c07_graceful(ix, f);
}

/// healthy endings (any engine): an actor that ended although no hook of its own panicked or failed and nobody killed it
/// went through on_stop(killed=false) and its JoinHandle carries a result, not a panic
fn c07_graceful(ix: &Ix, f: &mut Findings) {
    for (a, x) in ix.actors.iter().enumerate() {
        let Some((_, sum, _)) = &x.ended else { continue };
        let own_fault = !x.started_ok() || x.first_hook_panic().is_some() || x.run_err().is_some() || ix.kill_exempt(a) || sum.cancelled;
        if own_fault {
            continue;
        }
        f.o("C07.graceful");
        match x.stop_enter.first() {
            Some((_, false, _)) => {}
            other => f.v("C07.graceful", Some(a), format!("actor {a} was neither killed nor crashed but on_stop(killed=false) did not run: {:?}", other)),
        }
        // ... once, and to its end: a graceful on_stop is neither abandoned half-way nor followed by another on_stop
        if x.stop_enter.len() > 1 || (x.stop_enter.len() == 1 && x.stop_exit.is_empty()) {
            f.v(
                "C07.graceful",
                Some(a),
                format!("actor {a} was neither killed nor crashed: on_stop was entered {} time(s) (killed flags {:?}) and finished {} time(s) - the graceful on_stop(false) must run once and to completion", x.stop_enter.len(), x.stop_enter.iter().map(|s| s.1).collect::<Vec<_>>(), x.stop_exit.len()),
            );
        }
        if let Some(p) = &sum.panic {
            f.v("C07.graceful", Some(a), format!("actor {a}: no hook panicked or failed and nobody killed it, yet its JoinHandle did not resolve with a result but with a panic: {p}"));
        }
    }
}

// ------------------------------------------------------------------------------------------ C08
fn c08(ix: &Ix, f: &mut Findings) {
    for a in 0..ix.actors.len() {
        let x = &ix.actors[a];
        // an enabled on_run is what an idle actor does: at EVERY quiescent instant at which a started actor is idle, nothing
        // has begun to end it and on_run has never returned Ok(false)/Err, on_run has been (re)started since the actor last did
        // anything else. A stop() whose future was given up before the marker could be queued has requested nothing.
        if ix.sim() && x.started_ok() {
            let start_pos = x.start_exit.map(|s| s.0).unwrap_or(usize::MAX);
            for &sp in ix.samples.iter().filter(|s| **s > start_pos && matches!(&ix.log[**s].k, K::Sample { actor, phase, .. } if *actor == a && !phase.starts_with("client"))) {
                let ending = x.c().map(|c| c < sp).unwrap_or(false)
                    || x.ended_pos().map(|e| e < sp).unwrap_or(false)
                    || x.first_hook_panic().map(|p| p < sp).unwrap_or(false)
                    || x.kills.iter().any(|k| ix.ops[k].s < sp)
                    || x.stops.iter().any(|k| ix.ops[k].s < sp && !ix.ops[k].cancelled.map(|c| c < sp).unwrap_or(false));
                if ending {
                    break;
                }
                let disabled = x.run_done.iter().any(|r| r.0 < sp && r.2 != Out::True);
                if disabled {
                    break;
                }
                if ix.hook_in_progress(a, sp) || ix.pending_work(a, sp) {
                    continue;
                }
                let last_other = x.hexit.iter().chain(x.hpanic.iter()).map(|h| h.0).chain(x.run_done.iter().map(|r| r.0)).filter(|p| *p < sp).max().unwrap_or(start_pos);
                f.o("C08.idle_runs");
                if !x.run_poll.iter().any(|r| r.0 > last_other && r.0 < sp) {
                    f.v("C08.idle_runs", Some(a), format!("actor {a} is idle at the quiescent instant at log position {sp} (nothing queued, nothing ending it, on_run never returned Ok(false) or Err), but on_run has not been started again since the actor last finished something at {last_other}"));
                }
            }
        }
        // on_run is enabled from the start for every actor (only its own Ok(false) disables it): at the first quiescent instant
        // at which a started actor is idle and nothing has begun to end it, on_run has been run at least once
        if ix.sim() && x.started_ok() {
            let start_pos = x.start_exit.map(|s| s.0).unwrap_or(usize::MAX);
            if let Some(&sp) = ix.samples.iter().find(|s| **s > start_pos && matches!(&ix.log[**s].k, K::Sample { actor, phase, .. } if *actor == a && !phase.starts_with("client"))) {
                let ending = x.c().map(|c| c < sp).unwrap_or(false)
                    || x.ended_pos().map(|e| e < sp).unwrap_or(false)
                    || x.first_hook_panic().map(|p| p < sp).unwrap_or(false)
                    || x.kills.iter().any(|k| ix.ops[k].s < sp)
                    || x.stops.iter().any(|k| ix.ops[k].s < sp && !ix.ops[k].cancelled.map(|c| c < sp).unwrap_or(false));
                if !ending && !ix.hook_in_progress(a, sp) && !ix.pending_work(a, sp) {
                    f.o("C08.first_run");
                    if !x.run_poll.iter().any(|r| r.0 < sp) {
                        f.v("C08.first_run", Some(a), format!("actor {a} finished on_start and is idle at the quiescent instant at log position {sp} (nothing queued, nothing ending it), but its on_run has never been run"));
                    }
                }
            }
        }
        if x.run_poll.is_empty() {
            continue;
        }
        // accepted tells: (accept_pos, handled_pos)
        let acc: Vec<(usize, Option<usize>, u64)> = x
            .msgs
            .iter()
            .map(|o| &ix.ops[o])
            .filter(|o| o.accepted_tell())
            .map(|o| (o.end.as_ref().unwrap().0, ix.henter.get(&o.uid).map(|h| h[0]), o.uid))
            // ... and asks that certainly entered the mailbox when they were sent (whether or not their caller is still waiting)
            .chain(x.msgs.iter().map(|o| &ix.ops[o]).filter(|o| o.kind.ask_family() && ix.certainly_accepted(o)).map(|o| (o.s, ix.henter.get(&o.uid).map(|h| h[0]), o.uid)))
            .collect();
        let c = x.c().unwrap_or(usize::MAX);
        let first_poll_of: BTreeMap<u32, usize> = {
            let mut m = BTreeMap::new();
            for (p, inv) in &x.run_poll {
                m.entry(*inv).or_insert(*p);
            }
            m
        };
        for (p, inv) in &x.run_poll {
            if *p > c || !ix.sim() {
                // MT: a message may arrive between the mailbox poll and the on_run poll of one select! pass
                continue;
            }
            f.o("C08.msg_first");
            for (e, h, uid) in &acc {
                if e < p && h.map(|h| h > *p).unwrap_or(true) {
                    f.v("C08.msg_first", Some(a), format!("actor {a}: on_run (invocation {inv}) was polled at log position {p} while uid {uid}, accepted at {e}, was waiting in the mailbox"));
                    break;
                }
            }
            // kill pending
            for k in &x.kills {
                let o = &ix.ops[k];
                if let Some((ke, _, _)) = &o.end {
                    let self_run = matches!(o.ctx, Ctx::Hook(h, HookKind::Run) if h == a);
                    let same_inv_as_kill = self_run && first_poll_of.get(inv).map(|fp| *fp < o.s).unwrap_or(false);
                    if ke < p && !same_inv_as_kill {
                        f.v("C08.kill_pending", Some(a), format!("actor {a}: on_run (invocation {inv}) was polled at {p} although kill() had returned at {ke}"));
                        break;
                    }
                }
            }
        }
        // after Ok(false): never again
        if let Some((dpos, dinv, _)) = x.run_done.iter().find(|r| r.2 == Out::False) {
            let served_after = x.henter.iter().filter(|h| h.0 > *dpos).count() as u64;
            f.on("C08.disabled", served_after.max(1));
            if let Some((p, inv)) = x.run_poll.iter().find(|r| r.0 > *dpos) {
                f.v("C08.disabled", Some(a), format!("actor {a}: on_run returned Ok(false) (invocation {dinv}) but its body was polled again at {p} (invocation {inv})"));
            }
        }
        // after Err: on_stop(false) next, ends failed
        if let Some(rp) = x.run_err() {
            f.o("C08.err");
            let tr = hook_trace(ix, a);
            let next = tr.iter().find(|t| t.0 > rp).map(|t| t.1);
            if next != Some(HE::StopEnter(false)) {
                f.v("C08.err", Some(a), format!("actor {a}: on_run returned Err but the next hook event is {:?}, not on_stop(killed=false)", next));
            }
            if let Some((_, sum, _)) = &x.ended {
                if sum.panic.is_none() && !matches!(sum.phase.as_deref(), Some("OnRun") | Some("OnRunThenOnStop")) {
                    f.v("C08.err", Some(a), format!("actor {a}: on_run returned Err but the result is {:?}/{:?}", sum.completed, sum.phase));
                }
            }
        }
        // after Ok(true): run again when next idle (checked at quiescent samples)
        if ix.sim() {
            for (rp, inv, out) in &x.run_done {
                if *out != Out::True {
                    continue;
                }
                // next quiescent sample after rp
                let Some(&sp) = ix.samples.iter().find(|s| **s > *rp && matches!(&ix.log[**s].k, K::Sample { actor, phase, .. } if *actor == a && !phase.starts_with("client"))) else { continue };
                let stopped = x.c().map(|c| c < sp).unwrap_or(false) || x.ended_pos().map(|e| e < sp).unwrap_or(false) || x.first_hook_panic().map(|p| p < sp).unwrap_or(false);
                if stopped || ix.hook_in_progress(a, sp) {
                    continue;
                }
                f.o("C08.rerun");
                let again = x.run_poll.iter().any(|r| r.0 > *rp && r.0 < sp && r.1 > *inv);
                if !again {
                    f.v("C08.rerun", Some(a), format!("actor {a}: on_run returned Ok(true) at {rp} (invocation {inv}); at the next quiescent instant (log position {sp}) the actor is idle but on_run has not been run again"));
                }
            }
        }
    }
}

// ------------------------------------------------------------------------------------------ C09
fn c09(ix: &Ix, f: &mut Findings) {
    for a in 0..ix.actors.len() {
        let x = &ix.actors[a];
        let cap = ix.meta.caps[a] as i64;
        // lower bound of occupancy from the boundary: tells (and stop markers) accepted minus tells taken
        let tell_only = x.msgs.iter().all(|o| ix.ops[o].kind.tell_family());
        let slack = if ix.sim() { 0 } else { 1 }; // MT: one message may be taken but its handler entry not yet logged
        let mut occ: i64 = 0;
        let mut peak = 0;
        // the boundary can only see the queue while the actor is taking messages: stop at on_stop, a hook panic, a failed start or the end
        let end = [x.c(), x.ended_pos(), x.first_hook_panic(), x.start_exit.filter(|s| s.1 != Out::Ok).map(|s| s.0)]
            .into_iter()
            .flatten()
            .min()
            .unwrap_or(ix.log.len());
        let uids: BTreeSet<u64> = x.msgs.iter().map(|o| &ix.ops[o]).filter(|o| o.kind.tell_family()).map(|o| o.uid).collect();
        let mut parked_checked = false;
        for (i, e) in ix.log.iter().enumerate() {
            if i >= end {
                break;
            }
            match &e.k {
                K::CallEnd { op, res: Res::Ok(_) } => {
                    if let Some(o) = ix.ops.get(op) {
                        if o.actor == a && (o.kind.tell_family() || o.kind == OpKind::Stop) {
                            occ += 1;
                        }
                    }
                }
                K::HEnter { actor, uid } if *actor == a && uids.contains(uid) => occ -= 1,
                K::Sample { actor, phase, .. } if *actor == a && ix.sim() && tell_only && !phase.starts_with("client") => {
                    // quiescent instant: a send never waits while a slot is free
                    let parked: Vec<&OpInfo> = x
                        .msgs
                        .iter()
                        .chain(x.stops.iter())
                        .map(|o| &ix.ops[o])
                        .filter(|o| o.s < i && o.closed_pos().map(|c| c > i).unwrap_or(true) && matches!(o.kind, OpKind::Tell | OpKind::TellTo | OpKind::Stop))
                        .collect();
                    if !parked.is_empty() && x.start_exit.is_some() {
                        f.o("C09.no_idle_wait");
                        parked_checked = true;
                        if occ < cap {
                            f.v("C09.no_idle_wait", Some(a), format!("actor {a} (capacity {cap}): {} sender(s) are waiting at the quiescent instant {} ms although only {occ} message(s) occupy the mailbox", parked.len(), e.t));
                        }
                    }
                }
                _ => {}
            }
            if occ > peak {
                peak = occ;
            }
            if occ > cap + slack {
                f.v("C09.bound", Some(a), format!("actor {a}: {occ} accepted-but-not-yet-taken messages at log position {i}, capacity {cap}"));
                break;
            }
        }
        if peak >= cap {
            f.o("C09.bound");
        }
        let _ = parked_checked;
    }
}

// ------------------------------------------------------------------------------------------ C10
fn c10(ix: &Ix, f: &mut Findings) {
    for o in ix.ops.values() {
        if let Some(Res::Other(s)) = o.res() {
            if s.contains("is_retryable") {
                f.v("C10.retryable", Some(o.actor), format!("{:?} uid {}: {s}", o.kind, o.uid));
            }
        }
        if let Some(r) = o.res() {
            if !r.is_ok() {
                f.o("C10.retryable");
            }
        }
    }
    if !ix.sim() {
        return;
    }
    for o in ix.ops.values() {
        if !o.kind.has_timeout() || o.kind.blocking() {
            continue;
        }
        let Some((_, res, t)) = &o.end else { continue };
        let t = *t;
        let d = o.ts.saturating_add(o.to);
        let x = &ix.actors[o.actor];
        let r_at = ix.hexit.get(&o.uid).map(|h| h.2);
        let ended_at = x.ended.as_ref().map(|e| e.2);
        match res {
            Res::Timeout => {
                f.o("C10.timeout");
                if t < d {
                    f.v("C10.early", Some(o.actor), format!("{:?} uid {} (timeout {} ms, started at {} ms) returned Timeout at {} ms, before its deadline", o.kind, o.uid, o.to, o.ts, t));
                }
                if t > d + 1 {
                    f.v("C10.late", Some(o.actor), format!("{:?} uid {} returned Timeout at {} ms, deadline was {} ms", o.kind, o.uid, t, d));
                }
                if o.kind.ask_family() && o.mty != 'J' {
                    if let Some(r) = r_at {
                        if r < d {
                            f.v("C10.masked", Some(o.actor), format!("{:?} uid {}: the reply was produced at {} ms, before the deadline {} ms, yet the call returned Timeout", o.kind, o.uid, r, d));
                        }
                    }
                }
                // another failure occurred strictly before the deadline => it must be reported as itself
                if let Some(e) = ended_at {
                    if e < d && e >= o.ts {
                        f.v("C10.masked", Some(o.actor), format!("{:?} uid {}: the actor ended at {} ms, before the deadline {} ms, yet the call returned Timeout at {} ms", o.kind, o.uid, e, d, t));
                    }
                }
            }
            Res::Ok(_) => {
                f.o("C10.ok");
                if t > d + 1 {
                    f.v("C10.late", Some(o.actor), format!("{:?} uid {} returned Ok at {} ms, after its deadline {} ms", o.kind, o.uid, t, d));
                }
                if o.kind.ask_family() && o.mty != 'J' {
                    if let Some(r) = r_at {
                        if r != t {
                            f.v("C10.ok_instant", Some(o.actor), format!("{:?} uid {} returned Ok at {} ms but its reply was produced at {} ms", o.kind, o.uid, t, r));
                        }
                    }
                }
            }
            Res::Send | Res::Receive => {
                // the handler produced this request's reply before the deadline while the caller was still waiting: the outcome
                // is that reply - a later end of the actor must not replace it by an error
                if o.kind.ask_family() && o.mty != 'J' {
                    if let Some((hp, _, hr)) = ix.hexit.get(&o.uid).map(|h| (h.0, (), h.2)) {
                        let caller_still_waiting = o.end.as_ref().map(|e| e.0 > hp).unwrap_or(false);
                        if hr <= d && caller_still_waiting {
                            f.v("C10.masked", Some(o.actor), format!("{:?} uid {}: the reply was produced at {} ms, before the deadline {} ms, and the caller was still waiting, yet the call returned {:?}", o.kind, o.uid, hr, d, res));
                        }
                    }
                }
                f.o("C10.prompt_failure");
                // failure instants: call start (mailbox already closed), the actor's end, or the panic of this very handler
                let hp = ix.hpanic.get(&o.uid).map(|h| h.1);
                let own_panic = ix.actors[o.actor].first_hook_panic().map(|p| ix.log[p].t);
                let ok = t == o.ts || Some(t) == ended_at || Some(t) == hp || Some(t) == own_panic;
                if !ok {
                    f.v("C10.prompt_failure", Some(o.actor), format!("{:?} uid {} failed with {:?} at {} ms; the failure instants were start {} ms / actor end {:?} / panic {:?} (deadline {} ms)", o.kind, o.uid, res, t, o.ts, ended_at, hp.or(own_panic), d));
                }
            }
            _ => {}
        }
    }
}

// ------------------------------------------------------------------------------------------ C11
fn c11(ix: &Ix, f: &mut Findings) {
    let ids = &ix.meta.ids;
    {
        let set: BTreeSet<u64> = ids.iter().cloned().collect();
        f.on("C11.unique", ids.len() as u64);
        if set.len() != ids.len() {
            f.v("C11.unique", None, format!("two actors of one scenario share an id: {:?}", ids));
        }
    }
    for (i, e) in ix.log.iter().enumerate() {
        match &e.k {
            K::Ident { actor, via, id, type_ok } => {
                f.o("C11.identity");
                if *id != ids[*actor] || !*type_ok {
                    f.v("C11.identity", Some(*actor), format!("handle '{via}' of actor {actor} reports id {id} (type ok: {type_ok}); the spawn returned id {}", ids[*actor]));
                }
            }
            K::RefOp { actor, what: "upgrade-none", model } => {
                f.o("C11.upgrade");
                let ended = ix.actors[*actor].ended_pos().map(|p| p < i).unwrap_or(false);
                if !ended && ix.queued_for_sure(*actor, i) {
                    f.o("C11.upgrade_queued");
                    f.v("C11.upgrade", Some(*actor), format!("ActorWeak::upgrade returned None for actor {actor} at log position {i} although an accepted message / stop request is still queued and the actor is running"));
                }
                if *model >= 1 {
                    f.v("C11.upgrade", Some(*actor), format!("ActorWeak::upgrade returned None for actor {actor} although the harness holds {model} strong handle(s) (log position {i})"));
                }
            }
            K::RefOp { what: "upgrade-some", .. } => f.o("C11.upgrade"),
            K::Sample {
                actor,
                phase,
                alive,
                upgrade,
                model,
                weak_alive,
                ..
            } => {
                let a = *actor;
                let x = &ix.actors[a];
                let ended = x.ended_pos().map(|p| p < i).unwrap_or(false);
                if *phase == "client-weak" {
                    continue;
                }
                // upgrade truthfulness
                if *model >= 1 {
                    f.o("C11.upgrade");
                    if !*upgrade {
                        f.v("C11.upgrade", Some(a), format!("upgrade() is None for actor {a} at log position {i} although {model} strong handle(s) exist"));
                    }
                    if !*weak_alive && !phase.starts_with("client") {
                        f.v("C11.upgrade", Some(a), format!("ActorWeak::is_alive() is false for actor {a} at {i} although {model} strong handle(s) exist"));
                    }
                }
                if !ended && ix.queued_for_sure(a, i) {
                    f.o("C11.upgrade_queued");
                    if !*upgrade {
                        f.v("C11.upgrade", Some(a), format!("upgrade() is None for actor {a} at log position {i} although an accepted message / stop request is still queued and the actor is running"));
                    }
                }
                if *model == 0 && ended && ix.sim() && !phase.starts_with("client") && !ix.pending_work(a, i) {
                    f.o("C11.upgrade");
                    if *weak_alive {
                        f.v("C11.upgrade", Some(a), format!("ActorWeak::is_alive() is true for actor {a} at log position {i} although the actor has ended and no strong handle or queued message exists"));
                    }
                    if *upgrade {
                        f.v("C11.upgrade", Some(a), format!("upgrade() is Some for actor {a} at log position {i} although the actor has ended and no strong handle or queued message exists"));
                    }
                }
                // is_alive
                if let Some(al) = alive {
                    let began_to_end = !x.started_ok() && x.start_exit.map(|s| s.0 < i).unwrap_or(false)
                        || x.kills.iter().any(|k| ix.ops[k].s < i)
                        || x.stops.iter().any(|k| ix.ops[k].s < i)
                        || x.run_err().map(|p| p < i).unwrap_or(false)
                        || x.first_hook_panic().map(|p| p < i).unwrap_or(false)
                        || x.c().map(|c| c < i).unwrap_or(false)
                        || ix.log[..i].iter().any(|e| matches!(&e.k, K::RefOp { actor, model: 0, .. } if *actor == a));
                    if ended {
                        f.o("C11.alive_false");
                        if *al {
                            f.v("C11.alive_false", Some(a), format!("is_alive() is true for actor {a} at log position {i} although its JoinHandle has resolved"));
                        }
                    } else if !began_to_end {
                        f.o("C11.alive_true");
                        if !*al {
                            f.v("C11.alive_true", Some(a), format!("is_alive() is false for actor {a} at log position {i} although nothing has begun to end it"));
                        }
                    }
                }
            }
            _ => {}
        }
    }
}

// ------------------------------------------------------------------------------------------ C13
fn msg_type_ok(mty: char, reported: &str) -> bool {
    let want = match mty {
        'U' => "MU",
        'S' => "MS",
        'N' => "MN",
        'R' => "MR",
        'J' => "MJ",
        _ => return true,
    };
    reported.ends_with(want)
}

fn c13(ix: &Ix, f: &mut Findings) {
    // expected multiset from client results
    let mut exp: BTreeMap<(u64, char, &'static str, &'static str), i64> = BTreeMap::new();
    let mut failures = 0u64;
    let mut blocking_calls: BTreeSet<(u64, char)> = BTreeSet::new();
    for o in ix.ops.values() {
        if !o.kind.is_msg() {
            continue;
        }
        if o.kind.blocking() {
            blocking_calls.insert((ix.meta.ids[o.actor], o.mty));
        }
        let Some(res) = o.res() else { continue };
        let fam = if o.kind.tell_family() { "tell" } else { "ask" };
        let reason = match res {
            Res::Send => "actor stopped",
            Res::Timeout => "timeout",
            Res::Receive => "reply dropped",
            _ => {
                f.o("C13.none_on_success");
                continue;
            }
        };
        failures += 1;
        f.o("C13.one_per_failure");
        *exp.entry((ix.meta.ids[o.actor], o.mty, fam, reason)).or_default() += 1;
    }
    // cancelled / panicked / open calls may or may not have recorded one: they make the comparison for that key inconclusive
    let mut fuzzy: BTreeSet<(u64, char)> = BTreeSet::new();
    for o in ix.ops.values() {
        if o.kind.is_msg() && o.end.is_none() {
            fuzzy.insert((ix.meta.ids[o.actor], o.mty));
        }
    }
    let mut observed = 0u64;
    for e in ix.log {
        if let K::DeadLetter {
            actor_id,
            msg_type,
            op,
            reason,
        } = &e.k
        {
            observed += 1;
            let Some(a) = ix.meta.ids.iter().position(|x| x == actor_id) else {
                f.v("C13.target", None, format!("dead letter names unknown actor id {actor_id}"));
                continue;
            };
            let _ = a;
            let mty = ['U', 'S', 'N', 'R', 'J'].into_iter().find(|m| msg_type_ok(*m, msg_type)).unwrap_or('?');
            let fam: &'static str = if op.contains("tell") {
                "tell"
            } else if op.contains("ask") {
                "ask"
            } else {
                "?"
            };
            if op.starts_with("blocking") && !blocking_calls.contains(&(*actor_id, mty)) {
                f.v("C13.operation", Some(a), format!("dead letter for actor {a} names operation {op:?} but no blocking call was made"));
            }
            let reason_s: &'static str = match reason.as_str() {
                "actor stopped" => "actor stopped",
                "timeout" => "timeout",
                "reply dropped" => "reply dropped",
                _ => "?",
            };
            *exp.entry((*actor_id, mty, fam, reason_s)).or_default() -= 1;
        }
    }
    for ((id, mty, fam, reason), c) in &exp {
        if *c != 0 && !fuzzy.contains(&(*id, *mty)) {
            let a = ix.meta.ids.iter().position(|x| x == id);
            f.v(
                "C13.one_per_failure",
                a,
                format!("dead letters for actor id {id} message type M{mty} family {fam} reason {reason:?}: failed deliveries minus recorded dead letters = {c}"),
            );
        }
    }
    if let Some(d) = ix.meta.dl_delta {
        if fuzzy.is_empty() && !ix.meta.tainted {
            f.o("C13.counter");
            if d != failures {
                f.v("C13.counter", None, format!("dead_letter_count() advanced by {d} during the scenario but {failures} deliveries failed ({observed} dead-letter events observed)"));
            }
        }
    }
}

// --------------------------------------------------------------------------------------- C14/C15
fn c14_15(ix: &Ix, f: &mut Findings) {
    if !ix.meta.deadlock_feature {
        return;
    }
    // in-actor asks: ctx Hook(caller,_), ask family
    #[derive(Clone, Debug)]
    struct Edge {
        caller: usize,
        callee: usize,
        uid: u64,
        deadline: Option<u64>,
    }
    let n = ix.actors.len();
    let mut live: BTreeMap<u64, Edge> = BTreeMap::new();
    let mut answered: BTreeSet<u64> = BTreeSet::new(); // uid whose handler exited / panicked
    // uid of a request whose envelope was destroyed without having been handled (witness note): that ask has failed, whether or
    // not its caller has been polled since - it contributes nothing any more
    let mut destroyed: BTreeSet<u64> = BTreeSet::new();
    let mut dead = vec![false; n];
    let mut tracked_calls = 0u64;
    // callers that at some point had two asks in flight at once (join!/select!): the graph keeps one edge per caller,
    // which is the documented limitation of detection, so nothing is required of their edges
    let mut concurrent: BTreeSet<usize> = BTreeSet::new();
    for (i, e) in ix.log.iter().enumerate() {
        match &e.k {
            K::CallStart { op, actor, kind, uid, to, ctx, .. } if kind.ask_family() => {
                let Ctx::Hook(caller, _) = ctx else {
                    // non-actor callers are never tracked: they must never panic with a deadlock message
                    continue;
                };
                let (caller, callee) = (*caller, *actor);
                tracked_calls += 1;
                let tnow = e.t;
                let classify = |ed: &Edge| -> Option<bool> {
                    // Some(true)=live, Some(false)=grey, None=gone
                    if answered.contains(&ed.uid) || destroyed.contains(&ed.uid) {
                        None
                    } else if dead[ed.callee] || ed.deadline.map(|d| d <= tnow).unwrap_or(false) {
                        Some(false)
                    } else {
                        Some(true)
                    }
                };
                if live.values().any(|ed| ed.caller == caller) {
                    concurrent.insert(caller);
                }
                let edges: Vec<(usize, usize, bool)> = live
                    .values()
                    .filter_map(|ed| classify(ed).map(|l| (ed.caller, ed.callee, l && !concurrent.contains(&ed.caller))))
                    .collect();
                let path = |allow_grey: bool| -> Option<Vec<usize>> {
                    if caller == callee {
                        return Some(vec![caller, callee]);
                    }
                    let mut cur = callee;
                    let mut p = vec![caller, callee];
                    for _ in 0..=n {
                        match edges.iter().find(|(c, _, l)| *c == cur && (allow_grey || *l)) {
                            Some((_, d, _)) => {
                                p.push(*d);
                                if *d == caller {
                                    return Some(p);
                                }
                                cur = *d;
                            }
                            None => return None,
                        }
                    }
                    None
                };
                let definite = path(false);
                let possible = path(true);
                let o = &ix.ops[op];
                let panicked = o.panicked.as_ref();
                if let Some(p) = &definite {
                    f.o("C14.detect");
                    match panicked {
                        None => f.v("C14.detect", Some(caller), format!("in-actor ask (op {op}, uid {uid}) from actor {caller} to actor {callee} closes a cycle of unanswered asks {:?} but did not panic", p)),
                        Some((_, msg)) => {
                            if !msg.contains("Deadlock detected") {
                                f.v("C14.message", Some(caller), format!("cycle-closing ask panicked with {msg:?}, which does not say 'Deadlock detected'"));
                            } else {
                                // the message names the cycle's identities
                                for a in p {
                                    let tag = format!("(#{})", ix.meta.ids[*a]);
                                    if !msg.contains(&tag) {
                                        f.v("C14.message", Some(caller), format!("deadlock panic message {msg:?} does not name participant actor {a} {tag}; cycle {:?}", p));
                                    }
                                }
                            }
                        }
                    }
                } else if possible.is_none() {
                    f.o("C15.sound");
                    if let Some((_, msg)) = panicked {
                        if msg.contains("Deadlock detected") {
                            let stale: Vec<&Edge> = live.values().filter(|ed| answered.contains(&ed.uid)).collect();
                            let sig = if stale.is_empty() { "no-edge" } else { "stale-answered-edge" };
                            f.v(
                                "C15.sound",
                                Some(caller),
                                format!("[{sig}] ask from actor {caller} to actor {callee} (op {op}) panicked with {msg:?} but no chain of unanswered in-flight asks leads from {callee} back to {caller}; unanswered edges {:?}; answered-but-not-yet-resumed {:?}", edges, stale),
                            );
                        }
                    }
                }
                live.insert(
                    *op,
                    Edge {
                        caller,
                        callee,
                        uid: *uid,
                        deadline: if *to > 0 { Some(tnow.saturating_add(*to)) } else { None },
                    },
                );
                let _ = i;
            }
            K::CallEnd { op, .. } | K::CallCancelled { op } | K::CallPanicked { op, .. } => {
                live.remove(op);
            }
            K::HExit { uid, .. } | K::HPanic { uid, .. } => {
                answered.insert(*uid);
            }
            K::Note(s) => {
                if let Some(u) = s.strip_prefix("destroyed-unhandled uid ").and_then(|x| x.parse::<u64>().ok()) {
                    destroyed.insert(u);
                }
            }
            K::Ended { actor, sum } => {
                dead[*actor] = true;
                if let Some(p) = &sum.panic {
                    if p.contains("Deadlock detected") {
                        f.o("C14.reported");
                    }
                }
            }
            K::Graph { phase, edges } if ix.meta.graph_hook => {
                // the wait-for graph equals the in-actor asks that have not finished (plus answered-but-not-resumed ones,
                // which the repaired code removes at reply time; both are accepted)
                f.o("C15.residue");
                if edges.iter().any(|e| e.0 == u64::MAX) {
                    f.v("C12.poisoned", None, "the wait-for graph's lock is poisoned".to_string());
                    continue;
                }
                let must: BTreeSet<(u64, u64)> = live
                    .values()
                    .filter(|ed| !answered.contains(&ed.uid) && !dead[ed.callee])
                    .map(|ed| (ix.meta.ids[ed.caller], ix.meta.ids[ed.callee]))
                    .collect();
                let may: BTreeSet<(u64, u64)> = live.values().map(|ed| (ix.meta.ids[ed.caller], ix.meta.ids[ed.callee])).collect();
                let got: BTreeSet<(u64, u64)> = edges.iter().cloned().collect();
                for g in &got {
                    if !may.contains(g) {
                        f.v("C15.residue", None, format!("wait-for graph at {phase} (log position {i}) contains edge {:?} but no in-actor ask of that shape is in flight (in flight: {:?})", g, may));
                    }
                }
                // one edge per caller: only the most recent ask of a caller is certain to be present
                let mut by_caller: BTreeMap<u64, usize> = BTreeMap::new();
                for m in &must {
                    *by_caller.entry(m.0).or_default() += 1;
                }
                let conc_ids: BTreeSet<u64> = concurrent.iter().map(|c| ix.meta.ids[*c]).collect();
                for m in &must {
                    if by_caller[&m.0] == 1 && !conc_ids.contains(&m.0) && !got.contains(m) {
                        f.v("C14.edge_missing", None, format!("wait-for graph at {phase} (log position {i}) lacks edge {:?} although that in-actor ask is unanswered and in flight", m));
                    }
                }
            }
            _ => {}
        }
    }
    f.on("C15.tracked_asks", tracked_calls);
    // deadlock panics raised in non-actor contexts
    for o in ix.ops.values() {
        if !matches!(o.ctx, Ctx::Hook(..)) {
            if let Some((_, msg)) = &o.panicked {
                if msg.contains("Deadlock detected") {
                    f.v("C15.non_actor", Some(o.actor), format!("a caller outside any actor ({:?}) got a deadlock panic: {msg:?}", o.ctx));
                }
            }
        }
    }
}

// --------------------------------------------------------------------------------- C19 (runtime)
fn c19_tell_result(ix: &Ix, f: &mut Findings) {
    // on_tell_result is invoked exactly once after a tell with the handler's value, never after an ask.
    for (a, x) in ix.actors.iter().enumerate() {
        // handled tells, in handling order, that completed (HExit)
        let mut expected: Vec<Rep> = vec![];
        let tell_uids: BTreeMap<u64, OpKind> = x.msgs.iter().map(|o| &ix.ops[o]).map(|o| (o.uid, o.kind)).collect();
        for (_, uid) in &x.hexit {
            if let Some(k) = tell_uids.get(uid) {
                if k.tell_family() {
                    let rep = ix.hexit[uid].1.clone();
                    expected.push(match rep {
                        Rep::J(_) => Rep::J(0),
                        r => r,
                    });
                }
            }
        }
        let got: Vec<Rep> = x.tell_results.iter().map(|t| t.1.clone()).collect();
        f.on("C19.tell_result", expected.len() as u64);
        if expected != got {
            f.v("C19.tell_result", Some(a), format!("actor {a}: on_tell_result invocations {:?} differ from the values returned by handlers of tell messages {:?}", got, expected));
        }
    }
}

// ------------------------------------------------------------------------------------------ C20
fn c20(ix: &Ix, f: &mut Findings) {
    if !ix.meta.metrics_feature {
        return;
    }
    let mut last_count: BTreeMap<(usize, &'static str), u64> = BTreeMap::new();
    for (i, e) in ix.log.iter().enumerate() {
        let K::Metrics {
            actor,
            via,
            pre,
            count,
            avg_ns,
            max_ns,
            snap_count,
            snap_avg_ns,
            snap_max_ns,
        } = &e.k
        else {
            continue;
        };
        let a = *actor;
        let x = &ix.actors[a];
        f.o("C20.sample");
        let pre = (*pre as usize).min(i);
        // entered handlers whose processing is over at this point
        let entered = x.henter.iter().filter(|h| h.0 < i).count() as u64;
        let in_progress = if ix.hook_in_progress(a, i) && x.henter.iter().rev().find(|h| h.0 < i).map(|h| !x.hexit.iter().chain(x.hpanic.iter()).any(|c| c.1 == h.1 && c.0 < i)).unwrap_or(false) {
            1
        } else {
            0
        };
        let (lo, hi) = if ix.sim() {
            (entered - in_progress, entered - in_progress)
        } else {
            // values were read between `pre` and `i`; a handler whose exit is logged records its duration right afterwards
            let exited_before_read = (x.hexit.iter().chain(x.hpanic.iter()).filter(|h| h.0 < pre).count() as u64).saturating_sub(1);
            (exited_before_read, entered)
        };
        if *count < lo || *count > hi {
            f.v("C20.count", Some(a), format!("actor {a} ({via}): message_count {count} at log position {i}, but {entered} user message handlers were entered ({in_progress} still in progress; accepted range {lo}..={hi})"));
        }
        if let Some(prev) = last_count.get(&(a, *via)) {
            if count < prev {
                f.v("C20.monotone", Some(a), format!("actor {a}: message_count read through {via} went from {prev} to {count}"));
            }
        }
        last_count.insert((a, *via), *count);
        let quiescent = if ix.sim() { in_progress == 0 } else { x.ended_pos().map(|p| p < pre).unwrap_or(false) };
        if quiescent {
            if avg_ns > max_ns {
                f.v("C20.avg_le_max", Some(a), format!("actor {a}: avg_processing_time {avg_ns} ns > max_processing_time {max_ns} ns at quiescence"));
            }
            // demonstrated lower bound
            let longest = ix.log[..i]
                .iter()
                .filter_map(|e| match &e.k {
                    K::SelfTimed { actor, ns, .. } if *actor == a => Some(*ns),
                    _ => None,
                })
                .max()
                .unwrap_or(0);
            if longest > 0 {
                f.o("C20.max_lower_bound");
            }
            if *max_ns < longest {
                f.v("C20.max_lower_bound", Some(a), format!("actor {a}: max_processing_time {max_ns} ns is below the {longest} ns a handler measured for itself"));
            }
            if (snap_count, snap_avg_ns, snap_max_ns) != (count, avg_ns, max_ns) {
                f.v("C20.snapshot", Some(a), format!("actor {a}: snapshot ({snap_count},{snap_avg_ns},{snap_max_ns}) differs from accessors ({count},{avg_ns},{max_ns})"));
            }
        }
        if x.ended_pos().map(|p| p < i).unwrap_or(false) {
            f.o("C20.post_mortem");
        }
    }
}
