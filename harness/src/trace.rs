//! Canonical traces (for differential oracles C16 / C18) and human-readable rendering.

use crate::ev::*;
use crate::util::Fnv;

fn norm_ids(s: String, ids: &[u64]) -> String {
    if !s.contains("(#") {
        return s;
    }
    let mut out = s;
    // longest ids first so that #12 is not rewritten inside #123
    let mut order: Vec<(usize, u64)> = ids.iter().cloned().enumerate().collect();
    order.sort_by_key(|(_, id)| std::cmp::Reverse(*id));
    for (idx, id) in order {
        out = out.replace(&format!("(#{id})"), &format!("(#A{idx})"));
    }
    out
}

/// Canonical rendering of one event, or None if the event is bookkeeping that is not part of the
/// observable behaviour (wall-clock measurements, metric values, harness notes).
pub fn canon(e: &Ev, ids: &[u64]) -> Option<String> {
    let body = match &e.k {
        K::Note(_) | K::Metrics { .. } | K::SelfTimed { .. } | K::Graph { .. } => return None,
        K::DeadLetter {
            actor_id,
            msg_type,
            op,
            reason,
        } => {
            let idx = ids.iter().position(|x| x == actor_id).map(|i| i as i64).unwrap_or(-1);
            format!("DeadLetter A{idx} {msg_type} {op} {reason}")
        }
        K::Ident { actor, via, id, type_ok } => {
            format!("Ident A{actor} {via} same={} type_ok={type_ok}", *id == ids[*actor])
        }
        k => norm_ids(format!("{k:?}"), ids),
    };
    Some(format!("{} {}", e.t, body))
}

pub fn canon_trace(log: &[Ev], ids: &[u64]) -> Vec<String> {
    log.iter().filter_map(|e| canon(e, ids)).collect()
}

pub fn hash_trace(tr: &[String]) -> u64 {
    let mut h = Fnv::default();
    for s in tr {
        h.write_str(s);
    }
    h.finish()
}

pub fn render(log: &[Ev]) -> Vec<String> {
    log.iter()
        .enumerate()
        .map(|(i, e)| format!("{i:4} t={:<8} {:?}", e.t, e.k))
        .collect()
}

pub fn first_diff(a: &[String], b: &[String]) -> Option<(usize, Option<String>, Option<String>)> {
    let n = a.len().max(b.len());
    for i in 0..n {
        if a.get(i) != b.get(i) {
            return Some((i, a.get(i).cloned(), b.get(i).cloned()));
        }
    }
    None
}
