//! Event model shared by all engines, the append-only log, and the dead-letter capture subscriber.
//!
//! The log order is the deciding order: an event is pushed under the log's mutex, so if
//! `CallEnd(p)` precedes `CallStart(q)` in the log then p returned before q began in real time.
//! In SIM (single thread) the log order is simply execution order.

use std::collections::HashMap;
use std::sync::atomic::{AtomicU64, AtomicU8, Ordering};
use std::sync::{Arc, Mutex, OnceLock};

#[derive(Clone, Debug, PartialEq, Eq, Hash)]
pub enum Rep {
    None,
    U(u64),
    S(String),
    Unit,
    R(Result<u64, String>),
    J(u64),
}

#[derive(Clone, Debug, PartialEq, Eq, Hash)]
pub enum Res {
    Ok(Rep),
    Send,
    Timeout,
    Receive,
    /// ask_join: the spawned task failed; true = panicked, false = cancelled
    Join(bool),
    Downcast,
    Other(String),
}

impl Res {
    pub fn is_ok(&self) -> bool {
        matches!(self, Res::Ok(_))
    }
}

#[derive(Clone, Copy, Debug, PartialEq, Eq, Hash)]
pub enum Out {
    Ok,
    True,
    False,
    Err,
    Panic,
}

#[derive(Clone, Copy, Debug, PartialEq, Eq, Hash, PartialOrd, Ord)]
pub enum OpKind {
    Tell,
    TellTo,
    Ask,
    AskTo,
    AskJoin,
    Stop,
    Kill,
    BTell,
    BAsk,
    BTellTo,
    BAskTo,
    DepTell,
    DepAsk,
    Probe,
}

impl OpKind {
    pub fn tell_family(self) -> bool {
        matches!(
            self,
            OpKind::Tell | OpKind::TellTo | OpKind::BTell | OpKind::BTellTo | OpKind::DepTell
        )
    }
    pub fn ask_family(self) -> bool {
        matches!(
            self,
            OpKind::Ask
                | OpKind::AskTo
                | OpKind::AskJoin
                | OpKind::BAsk
                | OpKind::BAskTo
                | OpKind::DepAsk
                | OpKind::Probe
        )
    }
    pub fn is_msg(self) -> bool {
        self.tell_family() || self.ask_family()
    }
    pub fn blocking(self) -> bool {
        matches!(
            self,
            OpKind::BTell
                | OpKind::BAsk
                | OpKind::BTellTo
                | OpKind::BAskTo
                | OpKind::DepTell
                | OpKind::DepAsk
        )
    }
    pub fn has_timeout(self) -> bool {
        matches!(
            self,
            OpKind::TellTo | OpKind::AskTo | OpKind::BTellTo | OpKind::BAskTo
        )
    }
}

#[derive(Clone, Copy, Debug, PartialEq, Eq, Hash, PartialOrd, Ord)]
pub enum HookKind {
    Start,
    Handler,
    Run,
    Stop,
}

#[derive(Clone, Copy, Debug, PartialEq, Eq, Hash)]
pub enum Ctx {
    Client(usize),
    /// issued (and awaited) inside a hook of actor `.0`
    Hook(usize, HookKind),
    /// issued from a task spawned by a hook of actor `.0` (not an actor context)
    Detached(usize),
    Main,
}

#[derive(Clone, Debug, PartialEq, Eq, Hash, Default)]
pub struct EndSummary {
    pub panic: Option<String>,
    pub cancelled: bool,
    pub completed: Option<bool>,
    pub phase: Option<String>,
    pub killed: Option<bool>,
    pub err: Option<String>,
    pub has_actor: Option<bool>,
    pub journal: Option<Vec<String>>,
    /// result of the accessor-law check on the live ActorResult value (empty = all agree)
    pub law_failures: Vec<String>,
}

#[derive(Clone, Debug, PartialEq, Eq, Hash)]
pub enum K {
    CallStart {
        op: u64,
        actor: usize,
        kind: OpKind,
        /// message type of the payload: 'U','S','N','R','J' or '-' for stop/kill
        mty: char,
        uid: u64,
        to: u64,
        ctx: Ctx,
    },
    CallEnd {
        op: u64,
        res: Res,
    },
    CallCancelled {
        op: u64,
    },
    CallPanicked {
        op: u64,
        msg: String,
    },
    HEnter {
        actor: usize,
        uid: u64,
    },
    HExit {
        actor: usize,
        uid: u64,
        rep: Rep,
    },
    HPanic {
        actor: usize,
        uid: u64,
    },
    StartEnter {
        actor: usize,
    },
    StartExit {
        actor: usize,
        out: Out,
    },
    StopEnter {
        actor: usize,
        killed: bool,
    },
    StopExit {
        actor: usize,
        out: Out,
    },
    /// `on_run` was CALLED (a plain fn that returns a future runs its synchronous prefix at call time, polled or not)
    RunCall {
        actor: usize,
    },
    RunPoll {
        actor: usize,
        inv: u32,
    },
    RunDone {
        actor: usize,
        inv: u32,
        out: Out,
    },
    RunCancel {
        actor: usize,
        inv: u32,
    },
    TellResult {
        actor: usize,
        rep: Rep,
    },
    JoinTask {
        uid: u64,
        out: Out,
    },
    Ended {
        actor: usize,
        sum: EndSummary,
    },
    /// reference-model bookkeeping: `model` = number of strong handles the harness holds for `actor` after the op
    RefOp {
        actor: usize,
        what: &'static str,
        model: i64,
    },
    Sample {
        actor: usize,
        phase: &'static str,
        finished: bool,
        /// is_alive() through a strong handle, if the harness holds one
        alive: Option<bool>,
        weak_alive: bool,
        upgrade: bool,
        model: i64,
    },
    Ident {
        actor: usize,
        via: &'static str,
        id: u64,
        type_ok: bool,
    },
    DeadLetter {
        actor_id: u64,
        msg_type: String,
        op: String,
        reason: String,
    },
    Graph {
        phase: &'static str,
        edges: Vec<(u64, u64)>,
    },
    Metrics {
        actor: usize,
        via: &'static str,
        /// log length when the read began (MT: the values were read somewhere between `pre` and this event's position)
        pre: u64,
        count: u64,
        avg_ns: u64,
        max_ns: u64,
        snap_count: u64,
        snap_avg_ns: u64,
        snap_max_ns: u64,
    },
    /// a handler measured its own wall duration (lower bound for max_processing_time)
    SelfTimed {
        actor: usize,
        uid: u64,
        ns: u64,
    },
    /// a call's future was created (not yet polled) / dropped without ever being polled
    Lazy {
        uid: u64,
        what: &'static str,
    },
    Phase(&'static str),
    Note(String),
}

#[derive(Clone, Debug, PartialEq, Eq, Hash)]
pub struct Ev {
    /// SIM: virtual milliseconds since scenario start; MT: wall microseconds since round start
    pub t: u64,
    pub k: K,
}

pub struct LogInner {
    pub events: Mutex<Vec<Ev>>,
    pub t0_tokio: tokio::time::Instant,
    pub t0_std: std::time::Instant,
    pub virtual_time: bool,
}

#[derive(Clone)]
pub struct Log(pub Arc<LogInner>);

impl Log {
    pub fn new(virtual_time: bool) -> Log {
        Log(Arc::new(LogInner {
            events: Mutex::new(Vec::with_capacity(256)),
            t0_tokio: tokio::time::Instant::now(),
            t0_std: std::time::Instant::now(),
            virtual_time,
        }))
    }
    #[inline]
    pub fn now(&self) -> u64 {
        if self.0.virtual_time {
            self.0.t0_tokio.elapsed().as_millis() as u64
        } else {
            self.0.t0_std.elapsed().as_micros() as u64
        }
    }
    #[inline]
    pub fn push(&self, k: K) {
        let t = self.now();
        let mut g = self.0.events.lock().unwrap_or_else(|e| e.into_inner());
        g.push(Ev { t, k });
        if g.len() == EVENT_CAP {
            // a runaway history (livelock): stop the task that keeps producing events
            RUNAWAYS.fetch_add(1, Ordering::Relaxed);
        }
        if g.len() >= EVENT_CAP && !std::thread::panicking() {
            drop(g);
            panic!("scripted harness abort: event cap exceeded (runaway history)");
        }
    }
    pub fn snapshot(&self) -> Vec<Ev> {
        self.0
            .events
            .lock()
            .unwrap_or_else(|e| e.into_inner())
            .clone()
    }
    pub fn len(&self) -> usize {
        self.0.events.lock().unwrap_or_else(|e| e.into_inner()).len()
    }
}

// ---------------------------------------------------------------------------------------------
// Registry: rsactor actor id -> (log, actor index). Lets static hooks (on_tell_result) and the
// tracing subscriber attribute what they see to the scenario/round that owns the actor.
// ---------------------------------------------------------------------------------------------

static REG: OnceLock<Mutex<HashMap<u64, (Log, usize)>>> = OnceLock::new();
fn reg() -> &'static Mutex<HashMap<u64, (Log, usize)>> {
    REG.get_or_init(|| Mutex::new(HashMap::new()))
}
pub fn reg_insert(id: u64, log: &Log, idx: usize) {
    reg()
        .lock()
        .unwrap_or_else(|e| e.into_inner())
        .insert(id, (log.clone(), idx));
}
pub fn reg_remove(id: u64) {
    reg().lock().unwrap_or_else(|e| e.into_inner()).remove(&id);
}
pub fn reg_get(id: u64) -> Option<(Log, usize)> {
    reg()
        .lock()
        .unwrap_or_else(|e| e.into_inner())
        .get(&id)
        .cloned()
}

pub const EVENT_CAP: usize = 200_000;
pub static RUNAWAYS: AtomicU64 = AtomicU64::new(0);
pub static UNATTRIBUTED_DEAD_LETTERS: AtomicU64 = AtomicU64::new(0);
thread_local! {
    /// SIM: the log of the scenario that is running on this thread (message drop witnesses report to it)
    pub static CUR_LOG: std::cell::RefCell<Option<Log>> = const { std::cell::RefCell::new(None) };
}
pub static DL_HOOK: Mutex<Option<std::sync::Arc<dyn Fn() + Send + Sync>>> = Mutex::new(None);
thread_local! {
    static IN_DL_HOOK: std::cell::Cell<bool> = const { std::cell::Cell::new(false) };
}
/// 0 = only WARN and above are enabled (fast), 1 = everything enabled (exercises `tracing` feature code).
pub static TRACE_VERBOSE: AtomicU8 = AtomicU8::new(0);
pub static SPANS_CREATED: AtomicU64 = AtomicU64::new(0);
pub static EVENTS_SEEN: AtomicU64 = AtomicU64::new(0);

struct Sub;

struct V {
    id: u64,
    op: String,
    reason: String,
    msg_type: String,
    is_dl: bool,
}

impl tracing::field::Visit for V {
    fn record_u64(&mut self, f: &tracing::field::Field, v: u64) {
        if f.name() == "actor.id" {
            self.id = v
        }
    }
    fn record_str(&mut self, f: &tracing::field::Field, v: &str) {
        match f.name() {
            "dead_letter.operation" => self.op = v.to_string(),
            "message.type_name" => self.msg_type = v.to_string(),
            "dead_letter.reason" => self.reason = v.to_string(),
            _ => {}
        }
    }
    fn record_debug(&mut self, f: &tracing::field::Field, v: &dyn std::fmt::Debug) {
        match f.name() {
            "dead_letter.reason" => self.reason = format!("{v:?}"),
            "dead_letter.operation" => self.op = format!("{v:?}").trim_matches('"').to_string(),
            "message.type_name" => self.msg_type = format!("{v:?}").trim_matches('"').to_string(),
            "message" => {
                let s = format!("{v:?}");
                if s.contains("Dead letter") {
                    self.is_dl = true
                }
            }
            _ => {}
        }
    }
}

impl tracing::Subscriber for Sub {
    fn enabled(&self, m: &tracing::Metadata<'_>) -> bool {
        TRACE_VERBOSE.load(Ordering::Relaxed) == 1 || *m.level() <= tracing::Level::WARN
    }
    fn new_span(&self, _: &tracing::span::Attributes<'_>) -> tracing::span::Id {
        SPANS_CREATED.fetch_add(1, Ordering::Relaxed);
        tracing::span::Id::from_u64(1)
    }
    fn record(&self, _: &tracing::span::Id, _: &tracing::span::Record<'_>) {}
    fn record_follows_from(&self, _: &tracing::span::Id, _: &tracing::span::Id) {}
    fn event(&self, e: &tracing::Event<'_>) {
        EVENTS_SEEN.fetch_add(1, Ordering::Relaxed);
        if *e.metadata().level() != tracing::Level::WARN {
            if TRACE_VERBOSE.load(Ordering::Relaxed) == 1 {
                // format the event like a real subscriber would (exercises Display impls of fields)
                struct Sink(usize);
                impl tracing::field::Visit for Sink {
                    fn record_debug(&mut self, _: &tracing::field::Field, v: &dyn std::fmt::Debug) {
                        self.0 += format!("{v:?}").len();
                    }
                }
                let mut s = Sink(0);
                e.record(&mut s);
            }
            return;
        }
        let mut v = V {
            id: 0,
            op: String::new(),
            reason: String::new(),
            msg_type: String::new(),
            is_dl: false,
        };
        e.record(&mut v);
        if v.is_dl {
            // optional re-entrant user code: a subscriber that itself talks to actors (a log collector). Runs at most once
            // per thread at a time, like the usual re-entrancy guard of such subscribers.
            let hook = DL_HOOK.lock().unwrap_or_else(|e| e.into_inner()).clone();
            if let Some(h) = hook {
                if !IN_DL_HOOK.with(|c| c.replace(true)) {
                    h();
                    IN_DL_HOOK.with(|c| c.set(false));
                }
            }
            match reg_get(v.id) {
                Some((log, _)) => log.push(K::DeadLetter {
                    actor_id: v.id,
                    msg_type: v.msg_type,
                    op: v.op,
                    reason: v.reason,
                }),
                None => {
                    UNATTRIBUTED_DEAD_LETTERS.fetch_add(1, Ordering::Relaxed);
                }
            }
        }
    }
    fn enter(&self, _: &tracing::span::Id) {}
    fn exit(&self, _: &tracing::span::Id) {}
}

pub fn install_subscriber() {
    let _ = tracing::subscriber::set_global_default(Sub);
}

// ---------------------------------------------------------------------------------------------
// Quiet panic hook that remembers panics by thread (MT uses it to spot unexpected panics).
// ---------------------------------------------------------------------------------------------
pub static PANICS: Mutex<Vec<(String, String)>> = Mutex::new(Vec::new());
pub static PANIC_COUNT: AtomicU64 = AtomicU64::new(0);

pub fn install_quiet_panic_hook(record: bool) {
    std::panic::set_hook(Box::new(move |info| {
        PANIC_COUNT.fetch_add(1, Ordering::Relaxed);
        if record {
            let msg = if let Some(s) = info.payload().downcast_ref::<&str>() {
                s.to_string()
            } else if let Some(s) = info.payload().downcast_ref::<String>() {
                s.clone()
            } else {
                "<non-string panic>".to_string()
            };
            if !msg.starts_with("scripted") {
                let th = std::thread::current()
                    .name()
                    .unwrap_or("<unnamed>")
                    .to_string();
                let loc = info
                    .location()
                    .map(|l| format!("{}:{}", l.file(), l.line()))
                    .unwrap_or_default();
                let mut g = PANICS.lock().unwrap_or_else(|e| e.into_inner());
                if g.len() < 1000 {
                    g.push((th, format!("{msg} @ {loc}")));
                }
            }
        }
    }));
}

/// a panic payload that is neither a `String` nor a `&str` (raised with `panic_any`)
pub struct TypedPanic(pub String);

/// the text of a panic payload, tagged with the payload's type: what a supervisor downcasts is part of the result
pub fn panic_payload_to_string(p: &(dyn std::any::Any + Send)) -> String {
    if let Some(s) = p.downcast_ref::<&str>() {
        format!("[&str] {s}")
    } else if let Some(s) = p.downcast_ref::<String>() {
        s.clone()
    } else if let Some(t) = p.downcast_ref::<TypedPanic>() {
        format!("[typed] {}", t.0)
    } else {
        "<non-string panic>".to_string()
    }
}

pub fn map_err(e: &rsactor::Error) -> Res {
    match e {
        rsactor::Error::Send { .. } => Res::Send,
        rsactor::Error::Timeout { .. } => Res::Timeout,
        rsactor::Error::Receive { .. } => Res::Receive,
        rsactor::Error::Join { source, .. } => Res::Join(source.is_panic()),
        rsactor::Error::Downcast { .. } => Res::Downcast,
        other => Res::Other(format!("{other}")),
    }
}
