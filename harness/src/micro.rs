//! MICRO: a Miri-sized multi-thread workload. Run with `cargo +nightly miri run ... -- micro --seed S`
//! (each Miri seed is a different basic-block-level schedule with weak-memory emulation). The oracles
//! are the same trace monitors as everywhere else plus Miri's own verdict (UB / data race) on all
//! code executed. Also runs natively (then it is just a small MT round).

use crate::check::{self, Meta, Mode};
use crate::ev::*;
use crate::mt::{send_blocking, BKind};
use crate::sa::*;
use crate::scen::*;
use crate::util::*;
use std::collections::BTreeSet;
use std::sync::Arc;

fn spec(cap: usize, in_peers: bool) -> ActorSpec {
    ActorSpec {
        cap: Some(cap),
        start: HookScript::default(),
        run: vec![],
        stop: HookScript::default(),
        run_err_when_handled: None,
        in_peers,
    }
}

pub fn cmd_micro(a: &Args) -> i32 {
    let seed = a.u64("seed", 1);
    let prop = a.str("prop", "all");
    install_panic_hook();
    install_subscriber();
    let rt = tokio::runtime::Builder::new_multi_thread().worker_threads(2).enable_time().build().unwrap();
    // actors: 0 = leaf, 1 and 2 = middles that ask the leaf from their handlers, 3.. = spawned in parallel from threads
    let n = 3 + 6;
    let sh = Shared::new(n, 1, false, false, seed);
    let mut viol: Vec<(String, String)> = vec![];
    #[cfg(feature = "f_testutils")]
    let dl0 = rsactor::dead_letter_count();

    // 1. parallel spawns from 3 threads (id allocator)
    let mut ths = vec![];
    for t in 0..3usize {
        let (sh2, h) = (sh.clone(), rt.handle().clone());
        ths.push(std::thread::spawn(move || {
            let _g = h.enter();
            let mut v = vec![];
            for k in 0..2usize {
                let idx = 3 + t * 2 + k;
                let (r, jh) = spawn_sa(&sh2, idx, &spec(2, false));
                sh2.model_add(idx, 1, "spawner");
                v.push((idx, r, jh));
            }
            v
        }));
    }
    let mut extra = vec![];
    for t in ths {
        extra.extend(t.join().unwrap());
    }
    let (leaf, leaf_jh) = {
        let _g = rt.enter();
        spawn_sa(&sh, 0, &spec(4, true))
    };
    sh.model_add(0, 1, "spawner");
    sh.peers.lock().unwrap()[0] = Some(H::D(leaf.clone()));
    sh.model_add(0, 1, "peers");
    let mut mids = vec![];
    for i in 1..3usize {
        let _g = rt.enter();
        let (r, jh) = spawn_sa(&sh, i, &spec(2, false));
        sh.model_add(i, 1, "spawner");
        mids.push((i, r, jh));
    }
    let ids = sh.ids.lock().unwrap().clone();
    {
        let set: BTreeSet<u64> = ids.iter().cloned().collect();
        if set.len() != ids.len() {
            viol.push(("C11.unique".into(), format!("duplicate ids among parallel spawns: {:?}", ids)));
        }
    }
    let mut uid = seed * 1000;
    let mut next = || {
        uid += 1;
        uid
    };
    let sh2 = sh.clone();
    let mids2: Vec<(usize, rsactor::ActorRef<SA>)> = mids.iter().map(|(i, r, _)| (*i, r.clone())).collect();
    let mut bodies = vec![];
    for _ in 0..2 {
        let mut per = vec![];
        for _ in 0..2 {
            let inner = Body::plain(next());
            per.push(Body {
                uid: next(),
                flags: 0,
                steps: vec![Step::Peer {
                    target: 0,
                    kind: SendKind::Ask,
                    mty: MTy::U,
                    body: inner,
                }],
            });
        }
        bodies.push(per);
    }
    let blocking_uid = next();
    let fail_uids: Vec<u64> = (0..8).map(|_| next()).collect();
    let leaf2 = leaf.clone();
    rt.block_on(async {
        // 2. concurrent in-actor asks through two middle actors (wait-for graph mutex from two workers with the feature on)
        let mut hs = vec![];
        for ((i, r), per) in mids2.into_iter().zip(bodies.into_iter()) {
            let sh3 = sh2.clone();
            hs.push(tokio::spawn(async move {
                let h = H::D(r);
                for b in per {
                    send_via(&sh3, Ctx::Client(i), i, &h, SendKind::Ask, MTy::U, b).await;
                }
            }));
        }
        // 3. metric reader thread meanwhile
        #[cfg(feature = "f_metrics")]
        let reader = {
            let (sh3, l) = (sh2.clone(), leaf2.clone());
            std::thread::spawn(move || {
                for _ in 0..3 {
                    crate::sim::metrics_event(&sh3, 0, &l, "reader-0");
                    std::thread::yield_now();
                }
            })
        };
        // 4. a blocking ask with a timeout from a plain thread (helper thread + private runtime inside rsactor)
        let bt = {
            let (sh3, l) = (sh2.clone(), leaf2.clone());
            std::thread::spawn(move || send_blocking(&sh3, Ctx::Client(9), 0, &l, BKind::AskTo(20_000), Body::plain(blocking_uid)).0)
        };
        for h in hs {
            let _ = h.await;
        }
        let br = tokio::task::spawn_blocking(move || bt.join().unwrap()).await.unwrap();
        if !br.is_ok() {
            sh2.viol(format!("C17 blocking_ask(Some(20 s)) on a live idle actor returned {br:?}"));
        }
        #[cfg(feature = "f_metrics")]
        let _ = tokio::task::spawn_blocking(move || reader.join()).await;
        // 5. kill the leaf, then concurrent failing sends from two tasks and a thread (dead-letter counter)
        let lh = H::D(leaf2.clone());
        kill_via(&sh2, Ctx::Main, 0, &lh);
        drop(lh);
    });
    let leaf_w = rt.spawn(watch(sh.clone(), 0, leaf_jh));
    rt.block_on(async {
        let _ = leaf_w.await;
        let mut hs = vec![];
        for k in 0..2usize {
            let (sh3, l) = (sh.clone(), leaf.clone());
            let u: Vec<u64> = fail_uids[k * 3..k * 3 + 3].to_vec();
            hs.push(tokio::spawn(async move {
                let h = H::D(l);
                send_via(&sh3, Ctx::Client(20 + k), 0, &h, SendKind::Tell, MTy::U, Body::plain(u[0])).await;
                send_via(&sh3, Ctx::Client(20 + k), 0, &h, SendKind::Ask, MTy::S, Body::plain(u[1])).await;
                send_via(&sh3, Ctx::Client(20 + k), 0, &h, SendKind::AskTo(50), MTy::R, Body::plain(u[2])).await;
            }));
        }
        let bt = {
            let (sh3, l, u) = (sh.clone(), leaf.clone(), fail_uids[6..8].to_vec());
            std::thread::spawn(move || {
                send_blocking(&sh3, Ctx::Client(30), 0, &l, BKind::Tell, Body::plain(u[0]));
                send_blocking(&sh3, Ctx::Client(30), 0, &l, BKind::Ask, Body::plain(u[1]));
            })
        };
        for h in hs {
            let _ = h.await;
        }
        let _ = tokio::task::spawn_blocking(move || bt.join()).await;
        #[cfg(feature = "f_metrics")]
        crate::sim::metrics_event(&sh, 0, &leaf, "survivor-strong");
        // 6. stop everything else and join
        let mut ws = vec![];
        for (i, r, jh) in mids.drain(..).chain(extra.drain(..)) {
            let h = H::D(r);
            stop_via(&sh, Ctx::Main, i, &h).await;
            drop(h);
            sh.model_add(i, -1, "drop");
            ws.push(tokio::spawn(watch(sh.clone(), i, jh)));
        }
        for w in ws {
            let _ = w.await;
        }
    });
    sh.peers.lock().unwrap()[0] = None;
    drop(leaf);
    let log = sh.log.snapshot();
    for id in ids.iter() {
        reg_remove(*id);
    }
    #[cfg(feature = "f_testutils")]
    let dl_delta = Some(rsactor::dead_letter_count() - dl0);
    #[cfg(not(feature = "f_testutils"))]
    let dl_delta = None;
    let meta = Meta {
        mode: Mode::Mt,
        caps: (0..n).map(|i| if i == 0 { 4 } else { 2 }).collect(),
        ids: ids.clone(),
        dl_delta,
        deadlock_feature: false,
        metrics_feature: cfg!(feature = "f_metrics"),
        graph_hook: false,
        tainted: false,
    };
    let f = check::check_all(&log, &meta);
    for v in &f.viol {
        viol.push((v.clause.to_string(), v.msg.clone()));
    }
    #[cfg(all(feature = "f_deadlock", rsactor_verif))]
    {
        let snap = rsactor::verif::wait_for_snapshot();
        if !snap.is_empty() {
            viol.push(("C15.residue".into(), format!("wait-for graph not empty after every ask finished: {:?}", snap)));
        }
    }
    let failures = log.iter().filter(|e| matches!(&e.k, K::CallEnd { res, .. } if matches!(res, Res::Send | Res::Timeout | Res::Receive))).count() as u64;
    let vj: Vec<String> = viol
        .iter()
        .filter(|(c, _)| prop == "all" || c.starts_with(prop.as_str()) || prop.len() != 3)
        .map(|(c, m)| JObj::new().s("prop", &c[..3]).s("clause", c).s("msg", m).s("profile", "micro").n("seed", seed).n("pert", 0).b("erased", false).build())
        .collect();
    let oj: Vec<String> = f.obl.iter().map(|(k, v)| format!("{}:{}", json_str(k), v)).collect();
    println!(
        "{}",
        JObj::new()
            .s("engine", "micro")
            .s("features", &crate::features_label())
            .n("scenarios", 1)
            .n("events", log.len() as u64)
            .n("failed_deliveries", failures)
            .raw("obl", &format!("{{{}}}", oj.join(",")))
            .raw("viol", &jarr(&vj))
            .build()
    );
    let _ = Arc::strong_count(&sh);
    if vj.is_empty() {
        0
    } else {
        1
    }
}
