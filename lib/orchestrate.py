"""Build matrix, sharding, evidence writer and known-finding filter for the rsactor monitors."""
import array
import json
import os
import shutil
import subprocess
import sys
import time
from concurrent.futures import ThreadPoolExecutor

ROOT = os.path.dirname(os.path.dirname(os.path.abspath(__file__)))
HARNESS = os.path.join(ROOT, "harness")
BIN = os.path.join(HARNESS, "bin")
WORK = os.path.join(ROOT, "work")
EVID = os.path.join(ROOT, "evidence")
REPLAYS = os.path.join(EVID, "replays")
NCPU = min(16, os.cpu_count() or 4)
REPO = os.environ.get("RSV_REPO", "/repo")  # only trial copies (tools/matrix.sh) point this elsewhere

FEATURES = {"tracing": "f_tracing", "metrics": "f_metrics", "test-utils": "f_testutils", "deadlock-detection": "f_deadlock"}
ALL = "tracing+metrics+test-utils+deadlock-detection"


class Inconclusive(Exception):
    pass


def env():
    e = dict(os.environ)
    e["CARGO_NET_OFFLINE"] = "true"
    e.pop("RUSTFLAGS", None)  # the harness' .cargo/config.toml sets --cfg rsactor_verif
    return e


def label_to_features(label):
    if label in ("none", ""):
        return []
    if label == "all":
        label = ALL
    return [FEATURES[x] for x in label.split("+")]


def norm_label(label):
    if label == ALL:
        return "all"
    return label or "none"


_built = {}


def build(label):
    """Build the harness against /repo's current working tree with the given rsactor features."""
    label = norm_label(label)
    if label in _built:
        return _built[label]
    os.makedirs(BIN, exist_ok=True)
    feats = label_to_features(label)
    cmd = ["cargo", "build", "--release", "--offline", "--quiet"]
    if feats:
        cmd += ["--features", ",".join(feats)]
    t = time.time()
    p = subprocess.run(cmd, cwd=HARNESS, env=env(), stdout=subprocess.PIPE, stderr=subprocess.STDOUT, text=True)
    if p.returncode != 0:
        tail = "\n".join(p.stdout.splitlines()[-40:])
        raise Inconclusive(f"harness build failed for features [{label}] (rsactor's API or build changed?):\n{tail}")
    dst = os.path.join(BIN, "rsv-" + label.replace("+", "_"))
    shutil.copy2(os.path.join(HARNESS, "target", "release", "rsv"), dst + ".tmp")
    os.replace(dst + ".tmp", dst)
    _built[label] = dst
    print(f"[build] features [{label}] ready in {time.time()-t:.1f}s", flush=True)
    return dst


def run_proc(cmd, timeout, cwd=None, extra_env=None):
    e = env()
    if extra_env:
        e.update(extra_env)
    try:
        p = subprocess.run(cmd, cwd=cwd or ROOT, env=e, stdout=subprocess.PIPE, stderr=subprocess.PIPE, text=True, timeout=timeout)
        return p.returncode, p.stdout, p.stderr
    except subprocess.TimeoutExpired as ex:
        return -9, (ex.stdout or b"").decode() if isinstance(ex.stdout, bytes) else (ex.stdout or ""), "TIMEOUT"


def last_json(out):
    for line in reversed(out.strip().splitlines()):
        line = line.strip()
        if line.startswith("{"):
            try:
                return json.loads(line)
            except Exception:
                continue
    return None


class Agg:
    """Aggregated result of several engine runs for one property."""

    def __init__(self, prop):
        self.prop = prop
        self.scenarios = 0
        self.events = 0
        self.obl = {}
        self.viol = []
        self.samples = []
        self.hashes = set()
        self.nontrivial = 0
        self.engines = []
        self.inconclusive = []
        self.notes = []
        self.extra = {}

    def add_obl(self, d):
        for k, v in d.items():
            self.obl[k] = self.obl.get(k, 0) + v


def sim_job(agg, job, tier, seed):
    prop = agg.prop
    binp = build(job.get("build", "all"))
    count = job["count"][0 if tier == "quick" else 1]
    perts = job.get("perts", (1, 3))[0 if tier == "quick" else 1]
    mode = job.get("mode", "direct")
    profiles = ",".join(job["profiles"])
    nsh = NCPU
    wdir = os.path.join(WORK, prop)
    os.makedirs(wdir, exist_ok=True)
    tag = f"{job.get('build','all')}-{mode}-{abs(hash(profiles))%10000}"
    max_wall = job.get("max_wall", (120, 1500))[0 if tier == "quick" else 1]

    def one(i):
        hp = os.path.join(wdir, f"hashes-{tag}-{i}.bin")
        cmd = [binp, "sim", "--prop", job.get("prop_filter", prop), "--profiles", profiles, "--seed", str(seed + job.get("seed_off", 0)), "--count", str(count),
               "--shard", str(i), "--nshards", str(nsh), "--perts", str(perts), "--mode", mode, "--hashes-out", hp, "--max-wall", str(max_wall)]
        if job.get("trace_verbose"):
            cmd.append("--trace-verbose")
        rc, out, err = run_proc(cmd, timeout=max_wall + 120)
        return i, rc, out, err, hp

    t = time.time()
    with ThreadPoolExecutor(max_workers=nsh) as ex:
        results = list(ex.map(one, range(nsh)))
    scen = 0
    for i, rc, out, err, hp in results:
        d = last_json(out)
        if d is None:
            agg.inconclusive.append(f"sim shard {i} ({tag}) produced no result (rc={rc}): {err.strip()[-300:]}")
            continue
        if d.get("timed_out"):
            agg.notes.append(f"sim shard {i} ({tag}) stopped at its wall budget after {d['scenarios']} executions")
        if d.get("runaways", 0) > 0:
            agg.inconclusive.append(f"sim shard {i} ({tag}): {d['runaways']} runaway histories (event cap)")
        scen += d["scenarios"]
        agg.scenarios += d["scenarios"]
        agg.events += d["events"]
        agg.add_obl(d["obl"])
        agg.nontrivial += d["nontrivial"].get(prop, 0)
        for v in d["viol"]:
            v["engine"] = "sim"
            v["features"] = d["features"]
            agg.viol.append(v)
        if d.get("unexpected_panics"):
            agg.notes.append(f"unexpected panics in shard {i}: {d['unexpected_panics'][:3]}")
        if len(agg.samples) < 3:
            agg.samples.extend(d["samples"][: 3 - len(agg.samples)])
        try:
            a = array.array("Q")
            with open(hp, "rb") as f:
                a.frombytes(f.read())
            agg.hashes.update((tag.split("-")[0], x) for x in a)
            os.remove(hp)
        except Exception:
            pass
    agg.engines.append({"engine": "sim", "features": job.get("build", "all"), "mode": mode, "profiles": job["profiles"], "executions": scen, "perturbations_per_scenario": perts, "wall_s": round(time.time() - t, 2)})


SUBSETS = ["none", "tracing", "metrics", "test-utils", "deadlock-detection", "tracing+metrics", "tracing+test-utils", "tracing+deadlock-detection",
           "metrics+test-utils", "metrics+deadlock-detection", "test-utils+deadlock-detection", "tracing+metrics+test-utils", "tracing+metrics+deadlock-detection",
           "tracing+test-utils+deadlock-detection", "metrics+test-utils+deadlock-detection", "all"]


def featdiff_job(agg, job, tier, seed):
    """C18: the same seeded scenarios under different rsactor feature sets must give identical canonical traces."""
    prop = agg.prop
    quick = tier == "quick"
    if quick:
        # default, everything, one single feature and one "everything but one" (seed-rotated), so that code compiled only
        # for "X without Y" is reached within four consecutive seeds; thorough runs all 16
        single = SUBSETS[1 + (seed % 4)]
        minus_one = SUBSETS[11 + ((seed // 4 + seed) % 4)]
        subsets = ["none", "all", single, minus_one]
    else:
        subsets = list(SUBSETS)
    count = job["count"][0 if quick else 1]
    profiles = ",".join(job["profiles"])
    nsh = NCPU
    wdir = os.path.join(WORK, prop)
    os.makedirs(wdir, exist_ok=True)
    traces = {}
    t = time.time()
    for label in subsets:
        binp = build(label)
        lab = norm_label(label).replace("+", "_")

        def one(i, binp=binp, lab=lab, label=label):
            tp = os.path.join(wdir, f"trace-{lab}-{i}.txt")
            cmd = [binp, "sim", "--prop", "C18", "--profiles", profiles, "--seed", str(seed), "--count", str(count), "--shard", str(i), "--nshards", str(nsh),
                   "--perts", "1", "--mode", "direct", "--trace-out", tp, "--max-wall", "600"]
            if "tracing" in label or label == "all":
                cmd.append("--trace-verbose")
            rc, out, err = run_proc(cmd, timeout=900)
            return i, rc, out, err, tp

        with ThreadPoolExecutor(max_workers=nsh) as ex:
            results = list(ex.map(one, range(nsh)))
        lines = {}
        scen = 0
        for i, rc, out, err, tp in results:
            d = last_json(out)
            if d is None:
                agg.inconclusive.append(f"featdiff shard {i} [{label}] produced no result (rc={rc}): {err.strip()[-300:]}")
                continue
            scen += d["scenarios"]
            agg.events += d["events"]
            if label == "none":
                agg.add_obl({k: v for k, v in d["obl"].items()})
                if len(agg.samples) < 2:
                    agg.samples.extend(d["samples"][:1])
            if d["viol"]:
                agg.notes.append(f"[{label}] other monitors reported {len(d['viol'])} violation(s), e.g. {d['viol'][0]['clause']}: {d['viol'][0]['msg'][:200]}")
            try:
                for ln in open(tp):
                    parts = ln.split()
                    if len(parts) == 5:
                        lines[(parts[0], parts[1], parts[2])] = (parts[3], parts[4])
                os.remove(tp)
            except Exception as ex2:
                agg.inconclusive.append(f"featdiff: cannot read {tp}: {ex2}")
        traces[label] = lines
        agg.scenarios += scen
        agg.engines.append({"engine": "featdiff", "features": label, "profiles": job["profiles"], "executions": scen})
    base = traces.get("none", {})
    compared = 0
    for label, lines in traces.items():
        if label == "none":
            continue
        for key, val in base.items():
            other = lines.get(key)
            if other is None:
                continue
            compared += 1
            if other != val:
                agg.viol.append({"prop": "C18", "clause": "C18.equal_traces", "engine": "featdiff", "profile": key[0], "seed": int(key[1]), "pert": int(key[2]), "features": label,
                                 "msg": f"scenario {key[0]}:{key[1]} gives canonical trace hash/len {val} with default features but {other} with features [{label}]"})
    for key, val in base.items():
        agg.hashes.add(("none", val[0]))
    agg.nontrivial += len(base)
    agg.add_obl({"C18.equal_traces": compared})
    agg.extra["feature_sets_compared_with_default"] = [l for l in traces if l != "none"]
    agg.extra["featdiff_wall_s"] = round(time.time() - t, 1)


def gen_job(agg, job, tier, seed):
    """C19: generated actor programs for the proc macros (positives are executed, negatives must not compile)."""
    prop = agg.prop
    quick = tier == "quick"
    actors = job["actors"][0 if quick else 1]
    rounds = job.get("rounds", (1, 3))[0 if quick else 1]
    for rnd in range(rounds):
        t = time.time()
        proj = os.path.join(WORK, prop, f"proj{rnd}")
        os.makedirs(os.path.dirname(proj), exist_ok=True)
        rc, out, err = run_proc(["python3", os.path.join(ROOT, "gen", "macro_corpus.py"), "--seed", str(seed * 131 + rnd), "--actors", str(actors), "--out", proj, "--repo", REPO], timeout=120)
        if rc != 0:
            agg.inconclusive.append(f"corpus generator failed: {err[-300:]}")
            return
        corpus = json.load(open(os.path.join(proj, "corpus.json")))
        tenv = {"CARGO_TARGET_DIR": os.path.join(HARNESS, "target")}
        rc, out, err = run_proc(["cargo", "build", "--release", "--offline", "--message-format=json"], timeout=1500, cwd=proj, extra_env=tenv)
        if rc != 0:
            msgs = []
            in_repo = False
            for ln in out.splitlines():
                try:
                    d = json.loads(ln)
                except Exception:
                    continue
                if d.get("reason") == "compiler-message" and d["message"]["level"] == "error":
                    spans = d["message"].get("spans") or [{}]
                    fn = spans[0].get("file_name", "")
                    if "c19corpus" not in d.get("package_id", "") and "proj" not in d.get("manifest_path", ""):
                        in_repo = True
                    msgs.append(f"{fn}:{spans[0].get('line_start','?')}: {d['message']['message']}")
            if in_repo or not msgs:
                raise Inconclusive("rsactor itself does not build for the macro corpus: " + "; ".join(msgs[:3]) + err[-300:])
            for m in msgs[:5]:
                agg.viol.append({"prop": prop, "clause": "C19.accepted_signature", "engine": "gen", "profile": "gen", "seed": seed * 131 + rnd, "pert": 0,
                                 "msg": f"a generated program using only documented, accepted handler signatures does not compile: {m}", "args": ["--actors", actors]})
            continue
        rc, out, err = run_proc([os.path.join(HARNESS, "target", "release", "c19corpus")], timeout=600)
        d = last_json(out)
        if d is None:
            agg.inconclusive.append(f"corpus runner produced no result (rc={rc}): {err[-300:]}")
            continue
        agg.scenarios += d["scenarios"]
        agg.events += sum(d["obl"].values())
        agg.add_obl(d["obl"])
        agg.nontrivial += d["scenarios"]
        for v in d["viol"]:
            if v.get("prop", prop) != prop:
                continue  # the corpus runner also carries clauses of other properties (C20 on macro-generated handlers)
            v["engine"] = "gen"
            v["args"] = ["--actors", actors]
            agg.viol.append(v)
        if job.get("skip_negatives"):
            for sh in corpus["shapes"]:
                agg.hashes.add(("gen", sh))
            continue
        for sh in corpus["shapes"]:
            agg.hashes.add(("gen", sh))
        if len(agg.samples) < 4:
            agg.samples.extend([{"engine": "gen", "program": x} for x in corpus["samples"][:3]])
        # negatives and controls
        rc, out, err = run_proc(["cargo", "check", "--release", "--offline", "--examples", "--keep-going", "--message-format=json"], timeout=900, cwd=proj, extra_env=tenv)
        ok, bad = set(), {}
        for ln in out.splitlines():
            try:
                x = json.loads(ln)
            except Exception:
                continue
            if x.get("reason") == "compiler-artifact" and "example" in x["target"]["kind"]:
                ok.add(x["target"]["name"])
            if x.get("reason") == "compiler-message" and x["message"]["level"] == "error":
                bad.setdefault(x["target"]["name"], []).append(x["message"]["message"])
        for name in corpus["examples"]:
            agg.add_obl({"C19.compile_errors": 1})
            if name.startswith("neg_"):
                if name in ok and name not in bad:
                    agg.viol.append({"prop": prop, "clause": "C19.compile_errors", "engine": "gen", "profile": "gen", "seed": seed, "pert": 0, "args": ["--actors", actors],
                                     "msg": f"negative program {name} (an invalid handler/derive use that must be a compile error) compiled"})
                elif name not in bad:
                    agg.inconclusive.append(f"negative program {name}: neither compiled nor reported an error")
            else:
                if name in bad:
                    agg.viol.append({"prop": prop, "clause": "C19.accepted_signature", "engine": "gen", "profile": "gen", "seed": seed, "pert": 0, "args": ["--actors", actors],
                                     "msg": f"positive control {name} failed to compile: {bad[name][0][:300]}"})
        agg.engines.append({"engine": "gen", "actors": actors, "handlers": corpus["handlers"], "example_targets": len(corpus["examples"]), "wall_s": round(time.time() - t, 1)})
        shutil.rmtree(proj, ignore_errors=True)


def miri_job(agg, job, tier, seed):
    """MICRO workload under Miri (thorough tier only): many seeds = many basic-block-level schedules with weak-memory emulation."""
    prop = agg.prop
    n = job["seeds"][0 if tier == "quick" else 1]
    if n == 0:
        return
    t = time.time()
    e = {"MIRIFLAGS": f"-Zmiri-disable-isolation -Zmiri-many-seeds=0..{n}", "CARGO_TARGET_DIR": os.path.join(HARNESS, "target", "miri")}
    cmd = ["cargo", "+nightly", "miri", "run", "--offline", "--quiet", "--features", ",".join(label_to_features("all")), "--", "micro", "--seed", str(seed), "--prop", prop]
    rc, out, err = run_proc(cmd, timeout=3000, cwd=HARNESS, extra_env=e)
    runs = []
    for ln in out.splitlines():
        if ln.startswith("{"):
            try:
                runs.append(json.loads(ln))
            except Exception:
                pass
    if not runs and rc != 0:
        agg.inconclusive.append(f"miri run failed (rc={rc}): {err.strip()[-400:]}")
        return
    for d in runs:
        agg.scenarios += 1
        agg.events += d.get("events", 0)
        agg.add_obl(d.get("obl", {}))
        agg.nontrivial += 1
        for v in d.get("viol", []):
            v["engine"] = "micro"
            v["features"] = "all"
            agg.viol.append(v)
    if "Undefined Behavior" in err or "Data race" in err or "data race" in err:
        idx = max(err.find("Undefined Behavior"), err.find("ata race"))
        agg.inconclusive.append("Miri reported an error while interpreting the workload (UB/data race in executed code): " + err[max(0, idx - 200): idx + 600])
    agg.hashes.update(("miri", i) for i in range(len(runs)))
    agg.engines.append({"engine": "micro-miri", "features": "all", "miri_seeds": n, "completed_runs": len(runs), "wall_s": round(time.time() - t, 1)})


def generic_job(agg, job, tier, seed):
    """Engines that run as one process and print one JSON line (mt, laws, probe). `reps`: run that many fresh processes
    (process-wide one-shot state such as the default mailbox capacity gives one race per process)."""
    reps = job.get("reps", (1, 1))[0 if tier == "quick" else 1]
    for i in range(reps):
        n_viol = len(agg.viol)
        _generic_once(agg, job, tier, seed, first=(i == 0), reps=reps)
        if len(agg.viol) > n_viol:
            break


def mtdiff_job(agg, job, tier, seed):
    """C18 for workloads that have no deterministic trace (real threads): the same MT profile with all trace monitors on must
    be silent on the all-features build whenever it is silent on the default-features build."""
    res = {}
    for b in ("none", "all"):
        sub = Agg(agg.prop)
        j = dict(job)
        j["engine"] = "mt"
        j["build"] = b
        j["prop_filter"] = "all"
        _generic_once(sub, j, tier, seed)
        res[b] = sub
        agg.scenarios += sub.scenarios
        agg.events += sub.events
        agg.nontrivial += sub.scenarios
        agg.inconclusive.extend(sub.inconclusive)
        agg.notes.extend(sub.notes)
        for h in sub.hashes:
            agg.hashes.add(h)
        agg.engines.extend(sub.engines)
    agg.add_obl({"C18.mt_same_verdict": min(res["none"].scenarios, res["all"].scenarios)})
    if res["all"].viol and not res["none"].viol:
        v = dict(res["all"].viol[0])
        v["msg"] = f"the {','.join(job['profiles'])} real-thread workload is silent on the default-features build ({res['none'].scenarios} rounds) but with all features enabled: {v.get('clause')}: {v.get('msg')}"
        v["clause"] = "C18.mt_same_verdict"
        v["prop"] = "C18"
        agg.viol.append(v)
    elif res["none"].viol:
        agg.notes.append(f"mtdiff: the default-features build already violates {res['none'].viol[0].get('clause')} (not a feature difference)")


def _generic_once(agg, job, tier, seed, first=True, reps=1):
    prop = agg.prop
    binp = build(job.get("build", "all"))
    args = [str(a) for a in job["args"][0 if tier == "quick" else 1]]
    timeout = job.get("timeout", (300, 1800))[0 if tier == "quick" else 1]
    cmd = [binp, job["engine"], "--prop", job.get("prop_filter", prop), "--seed", str(seed + job.get("seed_off", 0))] + args
    t = time.time()
    rc, out, err = run_proc(cmd, timeout=timeout)
    d = last_json(out)
    if d is None:
        if "has overflowed its stack" in err and job.get("abort_is_violation"):
            # the harness process was aborted by a stack overflow inside a thread created by the code under test
            ln = [x for x in err.splitlines() if "overflowed its stack" in x][-1].strip()
            agg.viol.append({"prop": prop, "clause": job["abort_is_violation"], "engine": job["engine"], "profile": ",".join(a for a in args if not a.startswith("--") and not a.isdigit()), "seed": seed, "pert": 0,
                             "msg": f"the process running this workload was aborted: {ln}", "args": args})
            return
        agg.inconclusive.append(f"{job['engine']} produced no result (rc={rc}): {err.strip()[-400:]}")
        return
    agg.scenarios += d.get("scenarios", 0)
    agg.events += d.get("events", 0)
    agg.add_obl(d.get("obl", {}))
    agg.nontrivial += d.get("nontrivial", {}).get(prop, 0)
    for v in d.get("viol", []):
        v["engine"] = job["engine"]
        v["features"] = d.get("features", "")
        v.setdefault("args", args)
        agg.viol.append(v)
    for h in d.get("hashes", []):
        agg.hashes.add((job["engine"], h))
    if d.get("inconclusive"):
        # rounds skipped because the machine was stalled while a watchdog fired: not a verdict either way
        for x in d["inconclusive"]:
            if "process-level watchdog" in x:
                agg.inconclusive.append(x)
            else:
                agg.notes.append("skipped: " + x)
    if d.get("notes"):
        agg.notes.extend(d["notes"])
    if len(agg.samples) < 4 and first:
        agg.samples.extend(d.get("samples", [])[:2])
    for k, v in d.get("extra", {}).items():
        agg.extra[f"{job['engine']}.{k}"] = v
    if first:
        agg.engines.append({"engine": job["engine"], "features": job.get("build", "all"), "args": args, "executions": d.get("scenarios", 0), "processes": reps, "wall_s": round(time.time() - t, 2)})


# ------------------------------------------------------------------------------------------------
# Plans: which engines/profiles/builds feed which property. Counts are (quick, thorough).
# ------------------------------------------------------------------------------------------------
def S(profiles, q, t, build="all", **kw):
    d = {"engine": "sim", "profiles": profiles, "count": (q, t), "build": build}
    d.update(kw)
    return d


def M(profiles, q, t, build="all", **kw):
    """real-thread engine: seconds of wall budget (quick, thorough)"""
    d = {"engine": "mt", "build": build, "args": (["--profiles", ",".join(profiles), "--secs", q], ["--profiles", ",".join(profiles), "--secs", t, "--failpoints", 1]),
         "timeout": (q + 240, t + 600)}
    if kw.pop("fp_quick", False):
        d["args"] = (d["args"][0] + ["--failpoints", 1], d["args"][1])
    d.update(kw)
    return d


def P(mode, n=None, reps=(1, 1), m=None):
    a = ["--mode", mode] + (["--n", n] if n else []) + (["--m", m] if m else [])
    return {"engine": "probe", "build": "all", "args": (a, a), "timeout": (120, 120), "reps": reps}


MIRI = {"engine": "miri", "seeds": (0, 32)}
LAWS = {"engine": "laws", "build": "all", "args": ([], []), "timeout": (120, 120)}

PLANS = {
    "C01": [M(["general", "blocking", "notime"], 11, 100), M(["nest"], 3, 20, seed_off=41), S(["traffic", "backpressure", "refs"], 18000, 150000, mode="diff"), S(["timeouts", "backpressure"], 12000, 100000, seed_off=2000), S(["traffic", "backpressure", "kill"], 9000, 60000, build="none", seed_off=1000)],
    "C02": [M(["general", "blocking"], 6, 60), S(["traffic", "backpressure", "idle"], 18000, 150000, mode="diff"), S(["traffic", "backpressure"], 9000, 60000, build="none", seed_off=1000)],
    "C03": [M(["tightrace"], 12, 150, fp_quick=True), M(["deathrace", "general", "blocking", "notime", "abort"], 13, 110), M(["reentrant", "undriven", "dropspin", "nest", "blockpair", "poolfull"], 13, 60, seed_off=21), S(["traffic", "lifecycle", "kill", "faults", "timeouts"], 12000, 100000, mode="diff"), S(["overlap"], 3000, 20000, seed_off=400), {"engine": "gen", "actors": (14, 100), "rounds": (1, 2), "skip_negatives": True}, S(["kill", "lifecycle", "backpressure"], 9000, 60000, build="none", seed_off=1000)],
    "C04": [M(["dropspin", "nest"], 5, 30, seed_off=4), S(["lifecycle", "kill", "faults"], 18000, 150000), S(["lifecycle", "kill"], 9000, 60000, build="none", seed_off=1000)],
    "C05": [LAWS, M(["dropspin", "nest"], 6, 40), S(["lifecycle", "faults", "kill"], 18000, 150000), S(["lifecycle", "faults"], 9000, 60000, build="none", seed_off=1000)],
    "C06": [M(["general", "deathrace", "killstorm"], 9, 70), S(["kill", "backpressure", "lifecycle"], 18000, 150000, mode="diff"), S(["kill", "refs"], 12000, 60000, build="none", seed_off=1000)],
    "C07": [M(["dropspin", "notime", "nest"], 7, 40, seed_off=8), S(["refs", "idle", "lifecycle"], 18000, 150000, mode="diff"), S(["refs", "idle"], 9000, 60000, build="none", seed_off=1000)],
    "C08": [S(["idle", "kill", "traffic"], 18000, 150000), S(["idle", "kill"], 9000, 60000, build="none", seed_off=1000)],
    "C09": [M(["blocking", "lastslot"], 9, 50, seed_off=17), P("default"), P("set", 5, reps=(25, 150)), P("set", 1, reps=(25, 150)), P("set", 2, reps=(25, 150)), P("set", 7, reps=(25, 150)), P("set", 11, reps=(25, 150)), P("set", 13, reps=(25, 150)), P("set", 17, reps=(25, 150)), P("set", 19, reps=(25, 150)), P("set", 23, reps=(25, 150)), P("set", 29, reps=(25, 150)), P("spawn-then-set", 3), P("set-cross", 3), P("set-cross", 40), P("set-seq", 32, m=4), P("set-seq", 32, m=32), P("set-seq", 6, m=6), P("set-seq", 6, m=32), P("set-seq", 1, m=64), P("set-seq", 70001, m=5), P("zero"), S(["backpressure", "traffic"], 24000, 200000), S(["backpressure"], 12000, 80000, build="none", seed_off=1000)],
    "C10": [LAWS, M(["blocking"], 8, 60), M(["starve"], 3, 30, seed_off=3), M(["hogged", "lastslot", "hookblocking", "blockpair", "poolfull"], 15, 80, seed_off=13), S(["timeouts", "kill"], 24000, 200000, mode="diff"), S(["timeouts"], 12000, 80000, build="none", seed_off=1000)],
    "C11": [MIRI, M(["spawnstorm", "abort"], 7, 60), M(["readers", "nest"], 6, 50, seed_off=9), S(["refs", "lifecycle", "traffic"], 18000, 150000, mode="diff"), S(["refs", "kill"], 9000, 60000, build="none", seed_off=1000)],
    "C12": [MIRI, S(["faults"], 30000, 250000), S(["deadlock"], 15000, 100000), S(["faults"], 12000, 80000, build="none", seed_off=1000)],
    "C13": [MIRI, M(["general", "blocking", "deathrace"], 9, 90), M(["reentrant", "dropsend", "nest", "hookblocking"], 8, 40, seed_off=21), S(["traffic", "timeouts", "kill", "faults", "lifecycle"], 12000, 100000, mode="diff"), S(["timeouts", "kill"], 9000, 60000, build="none", seed_off=1000)],
    "C14": [M(["mutualask"], 4, 40), S(["deadlock"], 48000, 400000, perts=(2, 4)), S(["deadlock"], 12000, 100000, mode="erased", seed_off=300)],
    "C15": [MIRI, M(["dlrace", "nest"], 8, 50, seed_off=31), S(["deadlock"], 48000, 400000, perts=(2, 4), seed_off=500), S(["deadlock"], 12000, 100000, mode="erased", seed_off=800), S(["traffic", "faults"], 9000, 60000)],
    "C16": [M(["blocking", "notime"], 7, 40), S(["traffic", "refs", "timeouts", "kill", "lifecycle", "backpressure", "idle", "faults"], 7500, 60000, mode="diff"), S(["deadlock"], 6000, 40000, mode="diff", seed_off=700), S(["refs", "traffic", "kill"], 6000, 40000, mode="diff", build="none", seed_off=1000)],
    "C20": [MIRI, M(["readers"], 6, 60), M(["slow"], 2, 20, seed_off=5), M(["metricsrace", "abort"], 6, 40, seed_off=6), {"engine": "gen", "actors": (16, 120), "rounds": (1, 2), "skip_negatives": True}, S(["metrics", "traffic", "kill", "faults"], 15000, 120000), S(["metrics", "traffic"], 6000, 40000, trace_verbose=True, seed_off=77)],
    "C17": [M(["blocking"], 8, 90), M(["general"], 6, 60, seed_off=77), M(["hogged", "dropsend", "hookblocking", "blockpair", "poolfull"], 15, 80, seed_off=13), M(["bigmsg"], 1, 3, seed_off=3, abort_is_violation="C17.same_rules")],
    "C19": [M(["blocking", "general"], 6, 40), {"engine": "gen", "actors": (60, 400), "rounds": (1, 3)}, S(["traffic", "faults"], 9000, 60000)],
    "C18": [{"engine": "mtdiff", "profiles": ["notime", "hookblocking", "slow"], "args": (["--profiles", "notime,hookblocking,slow", "--secs", 6], ["--profiles", "notime,hookblocking,slow", "--secs", 30]), "timeout": (240, 600)}, {"engine": "featdiff", "profiles": ["traffic", "backpressure", "lifecycle", "kill", "refs", "idle", "timeouts", "faults", "metrics", "overlap"], "count": (1500, 20000)}],
}

# minimum number of non-vacuous evaluations of the key clauses below which a run is inconclusive
FLOORS = {
    "C01": {"C01.once": 1000, "C01.rejected": 500, "C01.accepted": 200},
    "C02": {"C02.order": 1000, "C02.after_stop": 200, "C02.before_stop": 50},
    "C03": {"C03.integrity": 500, "C03.complete": 1000, "C03.after_end": 200},
    "C04": {"C04.grammar": 1000, "C04.stop_iff": 500, "C04.killed_arg": 300},
    "C05": {"C05.result": 1000, "C05.state": 300, "C05.panic": 50},
    "C06": {"C06.nonblocking": 500, "C06.preempt": 200, "C06.killed": 100},
    "C07": {"C07.stays": 1000, "C07.ends": 1000, "C07.graceful": 200},
    "C08": {"C08.msg_first": 1000, "C08.disabled": 200, "C08.rerun": 50, "C08.err": 20},
    "C09": {"C09.bound": 300, "C09.no_idle_wait": 100},
    "C10": {"C10.timeout": 300, "C10.ok": 300, "C10.prompt_failure": 100},
    "C11": {"C11.identity": 1000, "C11.upgrade": 1000, "C11.alive_true": 500, "C11.alive_false": 500},
    "C12": {"C12.isolated_histories": 1000},
    "C13": {"C13.one_per_failure": 1000, "C13.none_on_success": 1000, "C13.counter": 500},
    "C14": {"C14.detect": 1000},
    "C15": {"C15.sound": 3000, "C15.residue": 5000},
    "C16": {"C16.equal_traces": 1000, "C16.blocking": 4},
    "C18": {"C18.equal_traces": 5000},
    "C19": {"C19.reply_value": 100, "C19.tell_log": 100, "C19.ask_no_log": 100, "C19.compile_errors": 15, "C19.tell_result": 1000, "C19.derive_state": 10},
    "C17": {"C17.deadline": 40, "C17.inside_runtime": 20, "C17.deprecated_ignores_timeout": 10, "C17.dead_actor": 60},
    "C20": {"C20.sample": 1000, "C20.max_lower_bound": 300},
}

LEVEL = {"C12": "fault_enumeration"}

RULES = {
    "mt": "MT: real-thread rounds on multi-thread tokio runtimes (worker counts 4/16/32, async + spawn_blocking + std-thread clients, termination at a random instant, heartbeat-guarded watchdogs); "
    "one execution = one round; distinct = distinct hashes of the round's order-insensitive event projection (tight death-race rounds: distinct parameter tuples).",
    "featdiff": "DIFF across builds: the harness is built against rsactor with different subsets of {tracing, metrics, test-utils, deadlock-detection}; every build runs the same seeded cycle-free SIM scenarios "
    "and the canonical event trace (virtual times, every client/hook/lifecycle event, results; metric values and wall-clock measurements excluded) must be identical to the default-feature build's; distinct = distinct default-build trace hashes.",
    "gen": "GEN: grammar-based generator of actor programs (actor kind x derive/manual Actor x handler attribute x return-type spelling x message kind x ActorRef spelling), compiled against /repo and executed; "
    "one evaluation = one generated handler run through ask and tell with Ok- and Err-producing inputs; distinct = distinct handler shape tuples; negative programs are separate compile-only targets.",
    "miri": "MICRO under Miri: a fixed small multi-thread workload (parallel spawns, concurrent in-actor asks, metric readers, blocking ask with timeout, concurrent failing sends) interpreted by Miri under N scheduler seeds; every seed is one execution checked by the same trace oracles plus Miri's UB/data-race detection.",
    "laws": "LAWS: exhaustive enumeration of all 18 ActorResult shapes and one value of each of the 7 Error variants against an independent expectation table.",
    "probe": "PROBE: fresh-process probes of the once-per-process default-capacity configuration (each mode is one execution).",
    "sim": "SIM: seeded scenario generator (profiles listed under engines) executed on a fresh single-thread paused-clock tokio runtime running the real rsactor code; "
    "an execution is non-trivial for this property if at least one clause of the property was evaluated non-vacuously on its event log; "
    "distinct = distinct hashes of the canonical event trace (virtual time stamps, all client/hook/lifecycle events, ids renumbered) per feature build.",
}


def load_known():
    known = []
    p = os.path.join(ROOT, "KNOWN_FINDINGS.txt")
    if not os.path.exists(p):
        return known
    for line in open(p):
        line = line.strip()
        if not line.startswith("known:"):
            continue
        rest = line[len("known:"):].strip()
        parts = rest.split()
        d = {"text": rest}
        for tok in parts[:2]:
            if "=" in tok:
                k, v = tok.split("=", 1)
                d[k] = v
        if "property" in d and "signature" in d:
            d["what"] = " ".join(parts[2:])
            known.append(d)
    return known


def write_replay(prop, n, v):
    os.makedirs(REPLAYS, exist_ok=True)
    p = os.path.join(REPLAYS, f"{prop}-{n}.json")
    with open(p, "w") as f:
        json.dump(v, f, indent=1)
    return p


def run_check(prop, tier, seed):
    t0 = time.time()
    if prop not in PLANS:
        print(f"property {prop} has no registered check", file=sys.stderr)
        return 2
    agg = Agg(prop)
    try:
        for job in PLANS[prop]:
            if job["engine"] == "sim":
                sim_job(agg, job, tier, seed)
            elif job["engine"] == "featdiff":
                featdiff_job(agg, job, tier, seed)
            elif job["engine"] == "gen":
                gen_job(agg, job, tier, seed)
            elif job["engine"] == "miri":
                miri_job(agg, job, tier, seed)
            elif job["engine"] == "mtdiff":
                mtdiff_job(agg, job, tier, seed)
            else:
                generic_job(agg, job, tier, seed)
    except Inconclusive as ex:
        print(f"INCONCLUSIVE property={prop}: {ex}")
        return 2
    # known findings
    known = [k for k in load_known() if k["property"] == prop]
    new_viol = []
    known_hits = {}
    for v in agg.viol:
        hit = None
        for k in known:
            if f"[{k['signature']}]" in v.get("msg", "") or k["signature"] == v.get("clause"):
                hit = k
                break
        if hit:
            known_hits[hit["signature"]] = known_hits.get(hit["signature"], 0) + 1
        else:
            new_viol.append(v)
    for k in known:
        if k["signature"] in known_hits:
            print(f"KNOWN-FINDING: property={prop} {k['what']} (signature {k['signature']}, {known_hits[k['signature']]} witness(es) in this run)")
    # floors
    low = []
    for clause, floor in FLOORS.get(prop, {}).items():
        fl = floor if tier == "quick" else floor * 3
        got = agg.obl.get(clause, 0)
        if got < fl:
            low.append(f"{clause}: {got} < {fl}")
    # evidence
    level = LEVEL.get(prop, "exploration")
    rel_obl = {k: v for k, v in sorted(agg.obl.items()) if k.startswith(prop) or prop == "C12"}
    coverage = {
        "evaluations": agg.scenarios,
        "distinct_nontrivial": len(agg.hashes),
        "rule": " | ".join(RULES[e] for e in sorted({x["engine"] for x in agg.engines}) if e in RULES) + (" | " + agg.extra.get("rule", "") if agg.extra.get("rule") else ""),
        "samples": agg.samples[:4] if agg.samples else [{"note": "no sample recorded"}],
        "nontrivial_executions": agg.nontrivial,
        "events_observed": agg.events,
        "obligations_per_clause": rel_obl,
        "engines": agg.engines,
        "inconclusive": agg.inconclusive,
        "notes": agg.notes[:20],
        "known_finding_hits": known_hits,
        "below_floor": low,
    }
    coverage.update({k: v for k, v in agg.extra.items() if k != "rule"})
    ev = {
        "property_id": prop,
        "tier": tier,
        "seed": seed,
        "level": level,
        "coverage": coverage,
        "assumptions": [
            "the scripted actor/clients and the trace oracles (harness/src/check.rs) are correct; oracles read only the recorded boundary events",
            "tokio 1.49 test-util paused clock: time advances only when no task is runnable (quiescence)",
            "verdict covers the executions listed here, not all schedules",
        ],
        "wall_s": round(time.time() - t0, 2),
        "violations": len(new_viol),
    }
    os.makedirs(EVID, exist_ok=True)
    with open(os.path.join(EVID, f"{prop}.json"), "w") as f:
        json.dump(ev, f, indent=1)
    print(f"[{prop}] tier={tier} seed={seed} executions={agg.scenarios} distinct={len(agg.hashes)} events={agg.events} wall={ev['wall_s']}s")
    print(f"[{prop}] obligations: " + ", ".join(f"{k}={v}" for k, v in rel_obl.items()))
    if new_viol:
        seen = set()
        n = 0
        for v in new_viol:
            key = (v.get("clause"), v.get("profile"), v.get("seed"), v.get("pert"), v.get("erased"), v.get("engine"))
            if key in seen:
                continue
            seen.add(key)
            n += 1
            if n > 10:
                break
            p = write_replay(prop, n, v)
            print(f"VIOLATION property={prop} replay={p}")
            print(f"   {v.get('clause')}: {v.get('msg','')[:600]}")
        return 1
    if agg.inconclusive or low:
        for x in agg.inconclusive:
            print(f"INCONCLUSIVE property={prop}: {x}")
        for x in low:
            print(f"INCONCLUSIVE property={prop}: too few obligations exercised ({x})")
        return 2
    return 0


def run_replay(prop, path):
    v = json.load(open(path))
    eng = v.get("engine", "sim")
    feats = v.get("features", ALL)
    try:
        binp = build(norm_label(feats))
    except Inconclusive as ex:
        print(f"INCONCLUSIVE property={prop}: {ex}")
        return 2
    if eng == "featdiff":
        try:
            b0 = build("none")
        except Inconclusive as ex:
            print(f"INCONCLUSIVE property={prop}: {ex}")
            return 2
        outs = []
        for b in (b0, binp):
            cmd = [b, "replay", "--profile", v["profile"], "--scen-seed", str(v["seed"]), "--pert", str(v.get("pert", 0)), "--quiet", "--canon", "--trace-verbose"]
            rc, out, err = run_proc(cmd, timeout=600)
            outs.append(out.splitlines())
        a, b = outs
        for i in range(max(len(a), len(b))):
            x = a[i] if i < len(a) else None
            y = b[i] if i < len(b) else None
            if x != y:
                print(f"canonical traces diverge at event {i}:\n  default features: {x}\n  [{feats}]: {y}")
                print(f"VIOLATION property={prop} replay={path}")
                return 1
        print(f"canonical traces identical ({len(a)} events)")
        return 0
    if eng == "sim":
        cmd = [binp, "replay", "--profile", v["profile"], "--scen-seed", str(v["seed"]), "--pert", str(v.get("pert", 0))]
        if v.get("erased"):
            cmd.append("--erased")
        if v.get("clause", "").startswith("C16.equal"):
            cmd.append("--diff")
        rc, out, err = run_proc(cmd, timeout=600)
        print(out)
        if rc == 1:
            print(f"VIOLATION property={prop} replay={path}")
        return rc if rc in (0, 1) else 2
    else:
        cmd = [binp, eng, "--prop", prop, "--replay", path] + [str(a) for a in v.get("args", [])]
        rc, out, err = run_proc(cmd, timeout=1800)
        print(out)
        if rc == 1:
            print(f"VIOLATION property={prop} replay={path}")
        return rc if rc in (0, 1) else 2


def main(argv):
    if not argv:
        print(__doc__)
        return 2
    if argv[0] == "--setup":
        try:
            build("all")
            build("none")
        except Inconclusive as ex:
            print(str(ex))
            return 1
        return 0
    prop = argv[0]
    tier = os.environ.get("VERIF_TIER", "quick")
    replay = None
    i = 1
    while i < len(argv):
        if argv[i] == "--tier":
            tier = argv[i + 1]
            i += 2
        elif argv[i] == "--replay":
            replay = argv[i + 1]
            i += 2
        else:
            i += 1
    seed = int(os.environ.get("VERIF_SEED", "1"))
    if replay:
        return run_replay(prop, replay)
    return run_check(prop, tier, seed)
