// E2: stale-edge false positive in deadlock detection
use rsactor::{spawn, Actor, ActorRef, Message};
use std::time::Duration;

struct A; struct B;
struct AskB(ActorRef<B>);   // A: ask B Ping
struct Ping;
struct Hold(tokio::sync::oneshot::Receiver<()>);
impl Message<Hold> for B { type Reply=(); async fn handle(&mut self,m:Hold,_:&ActorRef<Self>){ let _=m.0.await; } }
struct AskA(ActorRef<A>);   // B: ask A Ping
impl Actor for A { type Args=(); type Error=anyhow::Error; async fn on_start(_:(), _:&ActorRef<Self>)->Result<Self,Self::Error>{Ok(A)} }
impl Actor for B { type Args=(); type Error=anyhow::Error; async fn on_start(_:(), _:&ActorRef<Self>)->Result<Self,Self::Error>{Ok(B)} }
impl Message<Ping> for A { type Reply=u32; async fn handle(&mut self,_:Ping,_:&ActorRef<Self>)->u32{1} }
impl Message<Ping> for B { type Reply=u32; async fn handle(&mut self,_:Ping,_:&ActorRef<Self>)->u32{2} }
impl Message<AskB> for A { type Reply=u32; async fn handle(&mut self,m:AskB,_:&ActorRef<Self>)->u32{ m.0.ask(Ping).await.unwrap() } }
impl Message<AskA> for B { type Reply=u32; async fn handle(&mut self,m:AskA,_:&ActorRef<Self>)->u32{ m.0.ask(Ping).await.unwrap() } }

fn main() {
    let rt = tokio::runtime::Builder::new_current_thread().enable_time().start_paused(true).build().unwrap();
    rt.block_on(async move {
        let (a, ja) = spawn::<A>(());
        let (b, jb) = spawn::<B>(());
        tokio::time::sleep(Duration::from_millis(1)).await;
        // A asks B (ask is answered), and B's next message asks A. Never a cycle in time.
        let (gt, gr) = tokio::sync::oneshot::channel();
        b.tell(Hold(gr)).await.unwrap();
        tokio::time::sleep(Duration::from_millis(1)).await;
        let a2 = a.clone(); let b2 = b.clone();
        let c1 = tokio::spawn(async move { a2.ask(AskB(b2)).await });
        // let A's handler run and enqueue Ping into B before we enqueue AskA into B
        tokio::time::sleep(Duration::from_millis(1)).await;
        let a3 = a.clone(); let b3 = b.clone();
        let c2 = tokio::spawn(async move { b3.ask(AskA(a3)).await });
        tokio::time::sleep(Duration::from_millis(1)).await;
        gt.send(()).unwrap();
        tokio::time::sleep(Duration::from_secs(10)).await;
        println!("c1 = {:?}", c1.await.unwrap());
        println!("c2 = {:?}", c2.await.unwrap());
        drop(a); drop(b);
        println!("ja = {:?}", ja.await.map(|r| r.is_completed()));
        println!("jb = {:?}", jb.await.map(|r| r.is_completed()));
    });
}
