//! `rsv` — runtime-monitoring harness for rsactor. Subcommands:
//!   sim    deterministic simulation shards (paused-clock, single thread)
//!   mt     real-thread rounds
//!   laws   exhaustive accessor laws
//!   probe  one-shot process-wide state probes
//!   micro  tiny multi-thread workload for Miri

mod check;
mod ev;
mod gen;
mod laws;
mod micro;
mod mt;
mod probe;
mod sa;
mod scen;
mod sim;
mod trace;
mod util;

use check::{Findings, Meta, Mode};
use std::collections::{BTreeMap, BTreeSet};
use util::*;

pub fn features_label() -> String {
    let mut v = vec![];
    if cfg!(feature = "f_tracing") {
        v.push("tracing");
    }
    if cfg!(feature = "f_metrics") {
        v.push("metrics");
    }
    if cfg!(feature = "f_testutils") {
        v.push("test-utils");
    }
    if cfg!(feature = "f_deadlock") {
        v.push("deadlock-detection");
    }
    if v.is_empty() {
        "none".to_string()
    } else {
        v.join("+")
    }
}

pub fn sim_meta(out: &sim::RunOut) -> Meta {
    Meta {
        mode: Mode::Sim,
        caps: out.caps.clone(),
        ids: out.ids.clone(),
        dl_delta: out.dl_delta,
        deadlock_feature: cfg!(feature = "f_deadlock"),
        metrics_feature: cfg!(feature = "f_metrics"),
        graph_hook: cfg!(all(feature = "f_deadlock", rsactor_verif)),
        tainted: false,
    }
}

struct VOut {
    prop: String,
    clause: String,
    msg: String,
    profile: String,
    seed: u64,
    pert: u64,
    erased: bool,
}

fn viol_json(v: &VOut) -> String {
    JObj::new()
        .s("prop", &v.prop)
        .s("clause", &v.clause)
        .s("msg", &v.msg)
        .s("profile", &v.profile)
        .n("seed", v.seed)
        .n("pert", v.pert)
        .b("erased", v.erased)
        .build()
}

pub static SERIAL: std::sync::atomic::AtomicU64 = std::sync::atomic::AtomicU64::new(0);
type Cur = Option<(String, u64, u64, bool, u64, ev::Log)>;
pub static CURRENT: std::sync::Mutex<Cur> = std::sync::Mutex::new(None);

fn cmd_sim(a: &Args) -> i32 {
    let prop = a.str("prop", "all");
    let profiles: Vec<String> = a.str("profiles", "traffic").split(',').map(|s| s.to_string()).collect();
    let base = a.u64("seed", 1);
    let count = a.u64("count", 1000);
    let shard = a.u64("shard", 0);
    let nshards = a.u64("nshards", 1);
    let perts = a.u64("perts", 1);
    let mode = a.str("mode", "direct"); // direct | erased | diff
    let max_wall = a.u64("max-wall", 0);
    let verbose_trace = a.has("trace-verbose");
    if verbose_trace {
        ev::TRACE_VERBOSE.store(1, std::sync::atomic::Ordering::Relaxed);
    }
    sa::install_panic_hook();
    ev::install_subscriber();
    let t0 = std::time::Instant::now();
    let mut scenarios = 0u64;
    let mut events = 0u64;
    let mut obl: BTreeMap<&'static str, u64> = BTreeMap::new();
    let mut nontrivial: BTreeMap<String, u64> = BTreeMap::new();
    let mut hashes: BTreeMap<String, BTreeSet<u64>> = BTreeMap::new();
    let mut viols: Vec<VOut> = vec![];
    let mut samples: Vec<String> = vec![];
    let mut all_ids: BTreeSet<u64> = BTreeSet::new();
    let mut trace_lines: Vec<String> = vec![];
    let mut odd_viol = 0u64;
    let mut timed_out = false;
    let want_traces = a.has("trace-out");
    // Hang monitor: the single runtime thread of a scenario never blocks on its own (scripted steps burn at most a few
    // ms of wall time). If one scenario makes no progress (no new event) for 20 s of wall time while this monitor
    // thread itself is scheduled on time, the thread is blocked or spinning inside the code under test.
    {
        let prop = prop.clone();
        std::thread::spawn(move || {
            let mut last: (u64, usize) = (0, 0);
            let mut since = std::time::Instant::now();
            loop {
                let t = std::time::Instant::now();
                std::thread::sleep(std::time::Duration::from_millis(500));
                let late = t.elapsed().as_millis() > 900;
                let cur = CURRENT.lock().unwrap_or_else(|e| e.into_inner()).clone();
                let Some((prof, seed, pert, erased, serial, log)) = cur else {
                    since = std::time::Instant::now();
                    continue;
                };
                let n = log.len();
                if late || (serial, n) != last {
                    last = (serial, n);
                    since = std::time::Instant::now();
                    continue;
                }
                if since.elapsed().as_secs() >= 20 {
                    let evs = log.snapshot();
                    let mut open: std::collections::BTreeMap<u64, String> = Default::default();
                    for e in &evs {
                        match &e.k {
                            ev::K::CallStart { op, actor, kind, uid, ctx, .. } => {
                                open.insert(*op, format!("{kind:?} uid {uid} to actor {actor} issued by {ctx:?}"));
                            }
                            ev::K::CallEnd { op, .. } | ev::K::CallCancelled { op } | ev::K::CallPanicked { op, .. } => {
                                open.remove(op);
                            }
                            _ => {}
                        }
                    }
                    let lastop = open.values().last().cloned().unwrap_or_default();
                    let clause = match prop.as_str() {
                        "C06" => "C06.nonblocking",
                        "C14" => "C14.detect",
                        "C15" => "C15.sound",
                        "C12" => "C12.isolated_histories",
                        "C17" => "C17.deadline",
                        "C18" => "C18.equal_traces",
                        "C16" if erased => "C16.equal_traces",
                        _ => "C03.complete",
                    };
                    let v = VOut {
                        prop: clause[..3].to_string(),
                        clause: clause.to_string(),
                        msg: format!("[thread-blocked] one scenario made no progress for 20 s of wall time (no event, and the paused clock did not advance) while the machine was responsive: either a call inside rsactor blocks the runtime thread, or every task waits for another one and no timer is pending (an undetected deadlock); most recent unfinished call: {lastop}; {} events so far", evs.len()),
                        profile: prof,
                        seed,
                        pert,
                        erased,
                    };
                    println!(
                        "{}",
                        JObj::new()
                            .s("engine", "sim")
                            .s("features", &features_label())
                            .s("mode", "hang")
                            .n("scenarios", serial)
                            .n("events", 0)
                            .raw("obl", "{}")
                            .raw("nontrivial", "{}")
                            .raw("distinct", "{}")
                            .raw("viol", &jarr(&[viol_json(&v)]))
                            .raw("samples", "[]")
                            .raw("unexpected_panics", "[]")
                            .b("timed_out", false)
                            .b("hang", true)
                            .build()
                    );
                    std::process::exit(1);
                }
            }
        });
    }
    'outer: for j in 0..count {
        if j % nshards != shard {
            continue;
        }
        for prof in &profiles {
            for pert in 0..perts {
                if max_wall > 0 && t0.elapsed().as_secs() >= max_wall {
                    timed_out = true;
                    break 'outer;
                }
                let seed = mix(base, j);
                let mut sc = gen::generate(prof, seed);
                gen::perturb(&mut sc, pert);
                let modes: &[bool] = match mode.as_str() {
                    "erased" => &[true],
                    "diff" => &[false, true],
                    _ => &[false],
                };
                let mut traces: Vec<Vec<String>> = vec![];
                for &erased in modes {
                    SERIAL.fetch_add(1, std::sync::atomic::Ordering::Relaxed);
                    let out = sim::run_scenario(&sc, erased);
                    *CURRENT.lock().unwrap_or_else(|e| e.into_inner()) = None;
                    scenarios += 1;
                    events += out.log.len() as u64;
                    odd_viol += out.odd_sample_violations;
                    let meta = sim_meta(&out);
                    let f: Findings = check::check_all(&out.log, &meta);
                    for id in &out.ids {
                        if !all_ids.insert(*id) {
                            viols.push(VOut {
                                prop: "C11".into(),
                                clause: "C11.unique".into(),
                                msg: format!("actor id {id} was issued twice in one process"),
                                profile: prof.clone(),
                                seed,
                                pert,
                                erased,
                            });
                        }
                    }
                    let tr = trace::canon_trace(&out.log, &out.ids);
                    let h = trace::hash_trace(&tr);
                    let mut props_here: BTreeSet<String> = BTreeSet::new();
                    for (k, v) in &f.obl {
                        *obl.entry(k).or_default() += v;
                        props_here.insert(k[..3].to_string());
                    }
                    // faults profile: every monitor doubles as a C12 obligation for the survivors
                    let crashed_here = f.obl.contains_key("C05.panic") || out.log.iter().any(|e| match &e.k {
                        ev::K::Ended { sum, .. } => sum.panic.is_some() || sum.completed == Some(false),
                        ev::K::StartExit { out, .. } | ev::K::StopExit { out, .. } | ev::K::RunDone { out, .. } => matches!(out, ev::Out::Err | ev::Out::Panic),
                        ev::K::HPanic { .. } => true,
                        _ => false,
                    });
                    if crashed_here {
                        props_here.insert("C12".to_string());
                        *obl.entry("C12.isolated_histories").or_default() += 1;
                    }
                    if mode == "diff" {
                        props_here.insert("C16".to_string());
                    }
                    props_here.insert("C18".to_string());
                    for p in &props_here {
                        *nontrivial.entry(p.clone()).or_default() += 1;
                        hashes.entry(p.clone()).or_default().insert(h);
                    }
                    if want_traces && !erased {
                        trace_lines.push(format!("{prof} {seed} {pert} {h:016x} {}", tr.len()));
                    }
                    // an in-actor ask that ends in an unjustified deadlock panic has neither returned Ok nor Err: also a C03 matter
                    let relevant = |clause: &str| prop == "all" || clause.starts_with(prop.as_str()) || (prop == "C12" && crashed_here) || (prop == "C03" && clause == "C15.sound");
                    for v in &f.viol {
                        let p = &v.clause[..3];
                        let mut vp = p.to_string();
                        if prop == "C12" && crashed_here && p != "C12" {
                            // another actor's monitor failing on a history with a crash is a C12 matter only if it
                            // concerns a survivor
                            let victim = v.actor.map(|a| actor_crashed(&out.log, a)).unwrap_or(false);
                            if victim && !matches!(v.clause, "C03.complete" | "C05.panic" | "C05.result" | "C04.stop_iff" | "C13.one_per_failure" | "C13.counter" | "C11.unique" | "C07.resolves" | "C03.after_end" | "C15.residue" | "C12.poisoned" | "C20.readable") {
                                continue;
                            }
                            vp = "C12".to_string();
                        }
                        if prop == "C03" && v.clause == "C15.sound" {
                            vp = "C03".to_string();
                        }
                        if relevant(v.clause) {
                            viols.push(VOut {
                                prop: vp,
                                clause: v.clause.to_string(),
                                msg: v.msg.clone(),
                                profile: prof.clone(),
                                seed,
                                pert,
                                erased,
                            });
                        }
                    }
                    if samples.len() < 3 && (prop == "all" || props_here.contains(&prop)) && (scenarios % 7 == 1 || scenarios < 4) {
                        let rel: Vec<String> = f.obl.iter().filter(|(k, _)| prop == "all" || k.starts_with(prop.as_str())).map(|(k, v)| format!("{k}={v}")).collect();
                        let evs: Vec<String> = trace::render(&out.log).into_iter().take(40).collect();
                        samples.push(
                            JObj::new()
                                .s("engine", "sim")
                                .s("profile", prof)
                                .n("seed", seed)
                                .n("pert", pert)
                                .b("erased", erased)
                                .n("events", out.log.len() as u64)
                                .raw("obligations", &jarr_str(&rel))
                                .raw("first_events", &jarr_str(&evs))
                                .build(),
                        );
                    }
                    traces.push(tr);
                }
                if mode == "diff" && traces.len() == 2 {
                    *obl.entry("C16.equal_traces").or_default() += 1;
                    if let Some((i, d, e)) = trace::first_diff(&traces[0], &traces[1]) {
                        if prop == "all" || prop == "C16" {
                            viols.push(VOut {
                                prop: "C16".into(),
                                clause: "C16.equal_traces".into(),
                                msg: format!("direct and type-erased runs of the same scenario diverge at canonical event {i}: direct={:?} erased={:?}", d, e),
                                profile: prof.clone(),
                                seed,
                                pert,
                                erased: true,
                            });
                        }
                    }
                }
                if viols.len() > 60 {
                    break 'outer;
                }
            }
        }
    }
    if odd_viol > 0 {
        viols.push(VOut {
            prop: "HARNESS".into(),
            clause: "HARNESS.sampler".into(),
            msg: format!("sampler woke at an even instant {odd_viol} times"),
            profile: String::new(),
            seed: 0,
            pert: 0,
            erased: false,
        });
    }
    if let Some(path) = a.kv.get("hashes-out") {
        let key = if prop == "all" { "C18".to_string() } else { prop.clone() };
        let mut bytes = vec![];
        if let Some(hs) = hashes.get(&key) {
            for h in hs {
                bytes.extend_from_slice(&h.to_le_bytes());
            }
        }
        let _ = std::fs::write(path, bytes);
    }
    if let Some(path) = a.kv.get("trace-out") {
        let _ = std::fs::write(path, trace_lines.join("\n") + "\n");
    }
    let oj: Vec<String> = obl.iter().map(|(k, v)| format!("{}:{}", json_str(k), v)).collect();
    let nj: Vec<String> = nontrivial.iter().map(|(k, v)| format!("{}:{}", json_str(k), v)).collect();
    let dj: Vec<String> = hashes.iter().map(|(k, v)| format!("{}:{}", json_str(k), v.len())).collect();
    let vj: Vec<String> = viols.iter().map(viol_json).collect();
    let unexpected: Vec<String> = ev::PANICS.lock().unwrap().iter().take(5).map(|(t, m)| format!("{t}: {m}")).collect();
    println!(
        "{}",
        JObj::new()
            .s("engine", "sim")
            .s("features", &features_label())
            .s("mode", &mode)
            .n("scenarios", scenarios)
            .n("events", events)
            .raw("obl", &format!("{{{}}}", oj.join(",")))
            .raw("nontrivial", &format!("{{{}}}", nj.join(",")))
            .raw("distinct", &format!("{{{}}}", dj.join(",")))
            .raw("viol", &jarr(&vj))
            .raw("samples", &jarr(&samples))
            .raw("unexpected_panics", &jarr_str(&unexpected))
            .n("unattributed_dead_letters", ev::UNATTRIBUTED_DEAD_LETTERS.load(std::sync::atomic::Ordering::Relaxed))
            .n("runaways", ev::RUNAWAYS.load(std::sync::atomic::Ordering::Relaxed))
            .n("spans_created", ev::SPANS_CREATED.load(std::sync::atomic::Ordering::Relaxed))
            .b("timed_out", timed_out)
            .f("wall_s", t0.elapsed().as_secs_f64())
            .build()
    );
    if viols.is_empty() {
        0
    } else {
        1
    }
}

fn actor_crashed(log: &[ev::Ev], a: usize) -> bool {
    log.iter().any(|e| match &e.k {
        ev::K::Ended { actor, sum } if *actor == a => sum.panic.is_some() || sum.completed == Some(false),
        ev::K::HPanic { actor, .. } if *actor == a => true,
        // judged by what the hooks did, too: a failure the JoinHandle does not report is still a failure
        ev::K::StartExit { actor, out } | ev::K::StopExit { actor, out } | ev::K::RunDone { actor, out, .. } if *actor == a => matches!(out, ev::Out::Err | ev::Out::Panic),
        _ => false,
    })
}

fn cmd_replay(a: &Args) -> i32 {
    // --profile P --scen-seed S --pert K [--erased]
    sa::install_panic_hook();
    ev::install_subscriber();
    let prof = a.str("profile", "traffic");
    let seed = a.u64("scen-seed", 1);
    let pert = a.u64("pert", 0);
    let erased = a.has("erased");
    let mut sc = gen::generate(&prof, seed);
    gen::perturb(&mut sc, pert);
    if !a.has("quiet") {
        println!("=== scenario ===\n{}", sc.describe());
    }
    if a.has("trace-verbose") {
        ev::TRACE_VERBOSE.store(1, std::sync::atomic::Ordering::Relaxed);
    }
    if a.u64("dump-after", 0) > 0 {
        // a scenario that never finishes: print what has been recorded so far and give up
        let secs = a.u64("dump-after", 0);
        std::thread::spawn(move || {
            std::thread::sleep(std::time::Duration::from_secs(secs));
            if let Some((_, _, _, _, _, log)) = CURRENT.lock().unwrap_or_else(|e| e.into_inner()).clone() {
                let evs = log.snapshot();
                println!("=== partial event log after {secs} s ({} events) ===", evs.len());
                for l in trace::render(&evs) {
                    println!("{l}");
                }
            }
            std::process::exit(3);
        });
    }
    let out = sim::run_scenario(&sc, erased);
    if a.has("canon") {
        for l in trace::canon_trace(&out.log, &out.ids) {
            println!("{l}");
        }
        return 0;
    }
    println!("=== event log ({} events, features {}) ===", out.log.len(), features_label());
    for l in trace::render(&out.log) {
        println!("{l}");
    }
    let meta = sim_meta(&out);
    let f = check::check_all(&out.log, &meta);
    println!("=== obligations ===\n{:?}", f.obl);
    println!("=== violations ({}) ===", f.viol.len());
    for v in &f.viol {
        println!("{}: {}", v.clause, v.msg);
    }
    let mut rc = if f.viol.is_empty() { 0 } else { 1 };
    if a.has("diff") {
        let out2 = sim::run_scenario(&sc, true);
        let t1 = trace::canon_trace(&out.log, &out.ids);
        let t2 = trace::canon_trace(&out2.log, &out2.ids);
        match trace::first_diff(&t1, &t2) {
            None => println!("=== direct vs erased: identical ({} canonical events) ===", t1.len()),
            Some((i, d, e)) => {
                println!("=== direct vs erased DIVERGE at canonical event {i} ===\n direct: {:?}\n erased: {:?}", d, e);
                rc = 1;
            }
        }
    }
    rc
}

fn main() {
    let argv: Vec<String> = std::env::args().skip(1).collect();
    if argv.is_empty() {
        eprintln!("usage: rsv <sim|replay|mt|laws|probe|micro> [--key value ...]");
        std::process::exit(2);
    }
    let a = Args::parse(&argv[1..]);
    let rc = match argv[0].as_str() {
        "sim" => cmd_sim(&a),
        "replay" => cmd_replay(&a),
        "mt" => mt::cmd_mt(&a),
        "laws" => laws::cmd_laws(&a),
        "probe" => probe::cmd_probe(&a),
        "micro" => micro::cmd_micro(&a),
        "features" => {
            println!("{}", features_label());
            0
        }
        other => {
            eprintln!("unknown subcommand {other}");
            2
        }
    };
    std::process::exit(rc);
}
