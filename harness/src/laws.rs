//! LAWS: exhaustive enumeration of the finite shape space of `ActorResult` (2 Completed + 16 Failed
//! shapes) against an independently written table of what every query method / conversion must
//! return, and `Error::is_retryable` on one hand-built value of each of the seven variants.

use crate::util::*;
use rsactor::{Actor, ActorRef, ActorResult, FailurePhase};

#[derive(Debug, Clone, PartialEq)]
struct L(u32);
impl Actor for L {
    type Args = u32;
    type Error = String;
    async fn on_start(a: u32, _: &ActorRef<Self>) -> Result<Self, String> {
        Ok(L(a))
    }
}

struct Expect {
    completed: bool,
    killed: bool,
    phase: Option<FailurePhase>,
    has_actor: bool,
}

fn mk(e: &Expect, tag: u32) -> ActorResult<L> {
    match e.phase {
        None => ActorResult::Completed { actor: L(tag), killed: e.killed },
        Some(p) => ActorResult::Failed {
            actor: if e.has_actor { Some(L(tag)) } else { None },
            error: format!("err{tag}"),
            phase: p,
            killed: e.killed,
        },
    }
}

pub fn cmd_laws(_a: &Args) -> i32 {
    crate::sa::install_panic_hook();
    let mut viol: Vec<String> = vec![];
    let mut shapes = vec![];
    for killed in [false, true] {
        shapes.push(Expect { completed: true, killed, phase: None, has_actor: true });
    }
    for phase in [FailurePhase::OnStart, FailurePhase::OnRun, FailurePhase::OnStop, FailurePhase::OnRunThenOnStop] {
        for killed in [false, true] {
            for has_actor in [false, true] {
                shapes.push(Expect { completed: false, killed, phase: Some(phase), has_actor });
            }
        }
    }
    let mut n = 0u64;
    let mut samples = vec![];
    for (i, e) in shapes.iter().enumerate() {
        let tag = 100 + i as u32;
        let name = format!("shape#{i} completed={} killed={} phase={:?} has_actor={}", e.completed, e.killed, e.phase, e.has_actor);
        let mut chk = |what: &str, got: bool, exp: bool| {
            n += 1;
            if got != exp {
                viol.push(format!("{name}: {what} = {got}, expected {exp}"));
            }
        };
        let r = mk(e, tag);
        chk("is_completed()", r.is_completed(), e.completed);
        chk("is_failed()", r.is_failed(), !e.completed);
        chk("was_killed()", r.was_killed(), e.killed);
        chk("stopped_normally()", r.stopped_normally(), e.completed && !e.killed);
        chk("is_startup_failed()", r.is_startup_failed(), e.phase == Some(FailurePhase::OnStart));
        chk("is_runtime_failed()", r.is_runtime_failed(), matches!(e.phase, Some(FailurePhase::OnRun) | Some(FailurePhase::OnRunThenOnStop)));
        chk("is_cleanup_failed()", r.is_cleanup_failed(), e.phase == Some(FailurePhase::OnRunThenOnStop));
        chk("is_stop_failed()", r.is_stop_failed(), e.phase == Some(FailurePhase::OnStop));
        chk("has_actor()", r.has_actor(), e.has_actor);
        chk("actor() == the instance", r.actor().cloned() == if e.has_actor { Some(L(tag)) } else { None }, true);
        chk("error() == the error", r.error().cloned() == if e.completed { None } else { Some(format!("err{tag}")) }, true);
        chk("into_actor()", mk(e, tag).into_actor() == if e.has_actor { Some(L(tag)) } else { None }, true);
        chk("into_error()", mk(e, tag).into_error() == if e.completed { None } else { Some(format!("err{tag}")) }, true);
        chk(
            "to_result()",
            mk(e, tag).to_result() == if e.completed { Ok(L(tag)) } else { Err(format!("err{tag}")) },
            true,
        );
        let (oa, oe): (Option<L>, Option<String>) = mk(e, tag).into();
        chk("into (Option<actor>, Option<error>)", oa == if e.has_actor { Some(L(tag)) } else { None } && oe == if e.completed { None } else { Some(format!("err{tag}")) }, true);
        if i < 3 {
            samples.push(json_str(&name));
        }
    }
    // FailurePhase display
    for (p, s) in [(FailurePhase::OnStart, "OnStart"), (FailurePhase::OnRun, "OnRun"), (FailurePhase::OnStop, "OnStop"), (FailurePhase::OnRunThenOnStop, "OnRunThenOnStop")] {
        n += 1;
        if p.to_string() != s {
            viol.push(format!("FailurePhase::{s} displays as {}", p));
        }
    }
    // Error::is_retryable: Timeout only
    let id = rsactor::Identity::new(7, "X");
    let rt = tokio::runtime::Builder::new_current_thread().build().unwrap();
    let join_err = rt.block_on(async {
        let h = tokio::spawn(async { panic!("scripted join error") });
        h.await.unwrap_err()
    });
    let errs: Vec<(&str, rsactor::Error, bool)> = vec![
        ("Send", rsactor::Error::Send { identity: id, details: "d".into() }, false),
        ("Receive", rsactor::Error::Receive { identity: id, details: "d".into() }, false),
        ("Timeout", rsactor::Error::Timeout { identity: id, timeout: std::time::Duration::from_millis(5), operation: "ask".into() }, true),
        ("Downcast", rsactor::Error::Downcast { identity: id, expected_type: "u8".into() }, false),
        ("Runtime", rsactor::Error::Runtime { identity: id, details: "d".into() }, false),
        ("MailboxCapacity", rsactor::Error::MailboxCapacity { message: "m".into() }, false),
        ("Join", rsactor::Error::Join { identity: id, source: join_err }, false),
    ];
    let mut nret = 0u64;
    for (name, e, exp) in &errs {
        nret += 1;
        if e.is_retryable() != *exp {
            viol.push(format!("Error::{name}.is_retryable() = {}, expected {exp}", e.is_retryable()));
        }
        let _ = e.to_string();
    }
    let vj: Vec<String> = viol
        .iter()
        .map(|m| {
            let clause = if m.starts_with("Error::") { "C10.retryable" } else { "C05.accessors" };
            JObj::new().s("prop", &clause[..3]).s("clause", clause).s("msg", m).s("profile", "laws").n("seed", 0).n("pert", 0).b("erased", false).build()
        })
        .collect();
    let hashes: Vec<String> = (0..shapes.len() as u64 + errs.len() as u64).map(|h| h.to_string()).collect();
    println!(
        "{}",
        JObj::new()
            .s("engine", "laws")
            .s("features", &crate::features_label())
            .n("scenarios", shapes.len() as u64 + errs.len() as u64)
            .n("events", n)
            .raw("obl", &format!("{{\"C05.accessors\":{},\"C10.retryable\":{}}}", n, nret))
            .raw("nontrivial", &format!("{{\"C05\":{},\"C10\":{}}}", shapes.len(), errs.len()))
            .raw("hashes", &jarr(&hashes))
            .raw("viol", &jarr(&vj))
            .raw("samples", &jarr(&[JObj::new().s("engine", "laws").raw("shapes", &jarr(&samples)).b("exhaustive_over_shapes", true).build()]))
            .build()
    );
    if viol.is_empty() {
        0
    } else {
        1
    }
}
