// Prototype: unified C14/C15 oracle over in-actor ask histories (SIM, deadlock-detection on).
use rsactor::{spawn_with_mailbox_capacity, Actor, ActorRef, ActorWeak, AskHandler, Message};
use std::collections::BTreeMap;
use std::sync::{Arc, Mutex};
use std::time::Duration;
use tokio::time::Instant;

#[derive(Clone, Debug)]
enum Ev {
    InStart { op: u64, caller: usize, callee: usize, uid: u64, to: u64, t: u64 },
    InEnd { op: u64, ok: bool, t: u64 },
    InCancelled { op: u64 },
    InPanicked { op: u64 },
    HEnter { actor: usize, uid: u64 },
    HExit { actor: usize, uid: u64, t: u64 },
    Ended { actor: usize, t: u64, panic: Option<String> },
    ClientEnd { uid: u64, ok: bool },
}
type Log = Arc<Mutex<Vec<Ev>>>;
fn push(l: &Log, e: Ev) { l.lock().unwrap().push(e) }
struct Rng(u64);
impl Rng { fn next(&mut self) -> u64 { self.0 = self.0.wrapping_add(0x9E3779B97F4A7C15); let mut z = self.0; z = (z ^ (z >> 30)).wrapping_mul(0xBF58476D1CE4E5B9); z = (z ^ (z >> 27)).wrapping_mul(0x94D049BB133111EB); z ^ (z >> 31) } fn below(&mut self, n: u64) -> u64 { self.next() % n } fn chance(&mut self, p: u64) -> bool { self.below(100) < p } }
fn now(t0: Instant) -> u64 { t0.elapsed().as_millis() as u64 }

#[derive(Clone, Debug)]
struct Hop { target: usize, variant: u8 /*0 ask,1 ask_to,2 erased,3 select-cancel*/, to: u64, pre: u64, post: u64 }
#[derive(Clone, Debug)]
struct Chain { uid: u64, plan: Vec<Hop>, hold: u64 }
struct Shared { log: Log, t0: Instant, peers: Mutex<Vec<ActorRef<S>>>, opctr: Mutex<u64>, uidctr: Mutex<u64> }
struct Args { idx: usize, sh: Arc<Shared>, run_plan: Option<Chain>, stop_plan: Option<Chain>, start_plan: Option<Chain> }
struct S { a: Args, ran: bool }

struct Guard { log: Log, op: u64, done: bool }
impl Drop for Guard { fn drop(&mut self) { if !self.done { if std::thread::panicking() { push(&self.log, Ev::InPanicked { op: self.op }) } else { push(&self.log, Ev::InCancelled { op: self.op }) } } } }

async fn do_plan(idx: usize, sh: &Arc<Shared>, c: Chain) -> u64 {
    let mut plan = c.plan.clone();
    if c.hold > 0 { tokio::time::sleep(Duration::from_millis(c.hold)).await; }
    if plan.is_empty() { return c.uid; }
    let hop = plan.remove(0);
    if hop.pre > 0 { tokio::time::sleep(Duration::from_millis(hop.pre)).await; }
    let peer = sh.peers.lock().unwrap()[hop.target].clone();
    let uid = { let mut u = sh.uidctr.lock().unwrap(); *u += 1; *u };
    let sub = Chain { uid, plan, hold: hop.post };
    let op = { let mut o = sh.opctr.lock().unwrap(); *o += 1; *o };
    push(&sh.log, Ev::InStart { op, caller: idx, callee: hop.target, uid, to: if hop.variant == 1 || hop.variant == 3 { hop.to } else { 0 }, t: now(sh.t0) });
    let mut g = Guard { log: sh.log.clone(), op, done: false };
    let r = match hop.variant {
        0 => peer.ask(sub).await.ok(),
        1 => peer.ask_with_timeout(sub, Duration::from_millis(hop.to)).await.ok(),
        2 => { let h: Box<dyn AskHandler<Chain, u64>> = (&peer).into(); h.ask(sub).await.ok() }
        _ => { tokio::select! { biased; r = peer.ask(sub) => r.ok(), _ = tokio::time::sleep(Duration::from_millis(hop.to)) => { None } } }
    };
    if hop.variant == 3 && r.is_none() { // cancelled by select: the ask future has been dropped
        g.done = true; push(&sh.log, Ev::InCancelled { op });
    } else { g.done = true; push(&sh.log, Ev::InEnd { op, ok: r.is_some(), t: now(sh.t0) }); }
    r.unwrap_or(0)
}

impl Actor for S {
    type Args = Args; type Error = String;
    async fn on_start(a: Args, _: &ActorRef<Self>) -> Result<Self, String> { if let Some(p) = a.start_plan.clone() { tokio::time::sleep(Duration::from_millis(2)).await; do_plan(a.idx, &a.sh, p).await; } Ok(S { a, ran: false }) }
    async fn on_run(&mut self, _: &ActorWeak<Self>) -> Result<bool, String> { if self.ran { return Ok(false) } if let Some(p) = self.a.run_plan.clone() { tokio::time::sleep(Duration::from_millis(p.hold)).await; let mut p = p; p.hold = 0; do_plan(self.a.idx, &self.a.sh, p).await; } self.ran = true; Ok(false) }
    async fn on_stop(&mut self, _: &ActorWeak<Self>, _k: bool) -> Result<(), String> { if let Some(p) = self.a.stop_plan.clone() { do_plan(self.a.idx, &self.a.sh, p).await; } Ok(()) }
}
impl Message<Chain> for S { type Reply = u64;
    async fn handle(&mut self, c: Chain, _: &ActorRef<Self>) -> u64 { let uid = c.uid; push(&self.a.sh.log, Ev::HEnter { actor: self.a.idx, uid }); let r = do_plan(self.a.idx, &self.a.sh, c).await; push(&self.a.sh.log, Ev::HExit { actor: self.a.idx, uid, t: now(self.a.sh.t0) }); r } }

fn gen_plan(r: &mut Rng, n: usize, from: usize, maxlen: u64) -> Vec<Hop> { let mut v = vec![]; let mut cur = from; for _ in 0..r.below(maxlen + 1) { let mut t = r.below(n as u64) as usize; if t == cur && !r.chance(10) { t = (t + 1) % n; } let variant = match r.below(10) { 0 | 1 => 1, 2 => 2, 3 => 3, _ => 0 }; v.push(Hop { target: t, variant, to: 2 * (1 + r.below(6)), pre: 2 * r.below(3), post: 2 * r.below(3) }); cur = t; } v }

fn run(seed: u64) -> (Vec<Ev>, usize) {
    let rt = tokio::runtime::Builder::new_current_thread().enable_time().start_paused(true).build().unwrap();
    let log: Log = Arc::new(Mutex::new(vec![])); let l2 = log.clone();
    let n = rt.block_on(async move {
        let t0 = Instant::now(); let mut r = Rng(seed);
        let n = 2 + r.below(3) as usize;
        let sh = Arc::new(Shared { log: l2.clone(), t0, peers: Mutex::new(vec![]), opctr: Mutex::new(0), uidctr: Mutex::new(1000) });
        let mut jhs = vec![]; let mut refs = vec![];
        // spawn all first with gated start (start plans need peers): spawn sequentially; start_plan only targets lower indices (already spawned)
        for i in 0..n {
            let start_plan = if i > 0 && r.chance(10) { let t = r.below(i as u64) as usize; Some(Chain { uid: 0, plan: vec![Hop { target: t, variant: 0, to: 0, pre: 0, post: 2 * r.below(3) }], hold: 0 }) } else { None };
            let run_plan = if r.chance(15) { Some(Chain { uid: 0, plan: gen_plan(&mut r, n, i, 2), hold: 2 * r.below(5) }) } else { None };
            let stop_plan = if r.chance(15) { Some(Chain { uid: 0, plan: gen_plan(&mut r, n, i, 2), hold: 0 }) } else { None };
            let (rf, jh) = spawn_with_mailbox_capacity::<S>(Args { idx: i, sh: sh.clone(), run_plan, stop_plan, start_plan }, 4);
            sh.peers.lock().unwrap().push(rf.clone()); refs.push(rf);
            let l3 = l2.clone();
            jhs.push(tokio::spawn(async move { let res = jh.await; let p = match res { Ok(_) => None, Err(e) => { let p = e.into_panic(); Some(p.downcast_ref::<String>().cloned().or_else(|| p.downcast_ref::<&str>().map(|s| s.to_string())).unwrap_or_default()) } }; push(&l3, Ev::Ended { actor: i, t: now(t0), panic: p }); }));
        }
        let mut cl = vec![];
        for _ in 0..(2 + r.below(5)) {
            let first = r.below(n as u64) as usize; let plan = gen_plan(&mut r, n, first, 3); let uid = { let mut u = sh.uidctr.lock().unwrap(); *u += 1; *u };
            let c = Chain { uid, plan, hold: 2 * r.below(3) }; let rf = refs[first].clone(); let pre = 2 * r.below(6); let ask = r.chance(50); let l3 = l2.clone();
            cl.push(tokio::spawn(async move { tokio::time::sleep(Duration::from_millis(pre)).await; let ok = if ask { rf.ask(c).await.is_ok() } else { rf.tell(c).await.is_ok() }; push(&l3, Ev::ClientEnd { uid, ok }); }));
        }
        tokio::time::sleep(Duration::from_millis(3_600_001)).await;
        for rf in refs.iter() { if Rng(seed ^ rf.identity().id).chance(70) { let _ = rf.stop().await; } else { let _ = rf.kill(); } }
        drop(refs);
        tokio::time::sleep(Duration::from_millis(3_600_000)).await;
        sh.peers.lock().unwrap().clear();
        tokio::time::sleep(Duration::from_millis(3_600_000)).await;
        let pending = cl.iter().filter(|h| !h.is_finished()).count() + jhs.iter().filter(|h| !h.is_finished()).count();
        if pending > 0 { push(&l2, Ev::ClientEnd { uid: 0, ok: false }); }
        n
    });
    let v = log.lock().unwrap().clone(); (v, n)
}

#[derive(Clone, Copy, PartialEq, Debug)] enum St { Live, Grey }
fn check(log: &[Ev], n: usize) -> (Vec<String>, u64, u64) {
    let mut v = vec![]; let (mut must_panic, mut must_not) = (0u64, 0u64);
    // live edges: op -> (caller, callee, uid, deadline)
    let mut live: BTreeMap<u64, (usize, usize, u64, Option<u64>)> = BTreeMap::new();
    let mut answered: BTreeMap<u64, bool> = BTreeMap::new(); // uid -> handler exited
    let mut dead = vec![false; n];
    let mut tnow = 0u64;
    let outcome: BTreeMap<u64, &'static str> = log.iter().filter_map(|e| match e { Ev::InEnd { op, .. } => Some((*op, "end")), Ev::InCancelled { op } => Some((*op, "cancel")), Ev::InPanicked { op } => Some((*op, "panic")), _ => None }).collect();
    for e in log { match e {
        Ev::InStart { op, caller, callee, uid, to, t } => { tnow = *t;
            // classify edges
            let edges: Vec<(usize, usize, St)> = live.values().map(|(c, d, u, dl)| { let st = if answered.get(u).copied().unwrap_or(false) { None } else if dead[*d] || dl.map(|x| x <= tnow).unwrap_or(false) { Some(St::Grey) } else { Some(St::Live) }; (*c, *d, st) }).filter_map(|(c, d, s)| s.map(|s| (c, d, s))).collect();
            let path = |allow_grey: bool| -> bool { if caller == callee { return true; } let mut cur = *callee; for _ in 0..=n { match edges.iter().find(|(c, _, s)| *c == cur && (allow_grey || *s == St::Live)) { Some((_, d, _)) => { if *d == *caller { return true; } cur = *d; } None => return false } } false };
            let definite = path(false); let possible = path(true);
            let panicked = outcome.get(op) == Some(&"panic");
            if definite { must_panic += 1; if !panicked { v.push(format!("C14 missed: op {op} {caller}->{callee} closes a live cycle but did not panic (edges {:?})", edges)); } }
            else if !possible { must_not += 1; if panicked { v.push(format!("C15 false positive: op {op} {caller}->{callee} panicked; live/grey edges {:?}; stale answered edges {:?}", edges, live.values().filter(|(_, _, u, _)| answered.get(u).copied().unwrap_or(false)).collect::<Vec<_>>())); } }
            live.insert(*op, (*caller, *callee, *uid, if *to > 0 { Some(*t + *to) } else { None })); }
        Ev::InEnd { op, t, .. } => { tnow = *t; live.remove(op); }
        Ev::InCancelled { op } | Ev::InPanicked { op } => { live.remove(op); }
        Ev::HExit { uid, t, .. } => { tnow = *t; answered.insert(*uid, true); }
        Ev::Ended { actor, t, panic } => { tnow = *t; dead[*actor] = true; if let Some(p) = panic { if !p.contains("Deadlock detected") { v.push(format!("unexpected panic {p}")); } } }
        Ev::ClientEnd { uid: 0, ok: false } => v.push("C14/C03 something still pending at final quiescence".into()),
        _ => {} } }
    if !live.is_empty() { v.push(format!("open in-actor asks at end: {:?}", live)); }
    (v, must_panic, must_not)
}

fn main() {
    let n: u64 = std::env::args().nth(1).map(|s| s.parse().unwrap()).unwrap_or(2000);
    let base: u64 = std::env::args().nth(2).map(|s| s.parse().unwrap()).unwrap_or(0);
    std::panic::set_hook(Box::new(|_| {}));
    let (mut viol, mut mp, mut mn) = (0, 0, 0); let mut kinds: BTreeMap<String, u64> = BTreeMap::new();
    let t = std::time::Instant::now();
    for seed in base..base + n { let (log, na) = run(seed); let (vs, a, b) = check(&log, na); mp += a; mn += b;
        if !vs.is_empty() { viol += 1; for x in &vs { *kinds.entry(x.split(':').next().unwrap().split(' ').take(2).collect::<Vec<_>>().join(" ")).or_default() += 1; } if viol <= 2 { println!("seed {seed}: {:#?}", vs); if std::env::var("DUMP").is_ok() { for (i, e) in log.iter().enumerate() { println!("{i:4} {:?}", e); } } } } }
    println!("scenarios={n} with_violations={viol} kinds={:?} must_panic_obligations={mp} must_not_panic_obligations={mn} wall={:?}", kinds, t.elapsed());
}
