// E8: mini-sim: direct vs erased routing -> identical traces? identical across feature builds?
use rsactor::{spawn_with_mailbox_capacity, Actor, ActorRef, ActorWeak, Message, TellHandler, AskHandler, ActorControl};
use std::sync::{Arc, Mutex};
use std::time::Duration;
use std::collections::hash_map::DefaultHasher;
use std::hash::{Hash, Hasher};

#[derive(Clone, Default)]
struct Log(Arc<Mutex<Vec<String>>>);
impl Log { fn p(&self, t0: tokio::time::Instant, s: String) { self.0.lock().unwrap().push(format!("{:>6}ms {}", t0.elapsed().as_millis(), s)); } }

struct Rng(u64);
impl Rng { fn next(&mut self) -> u64 { self.0 = self.0.wrapping_add(0x9E3779B97F4A7C15); let mut z = self.0; z = (z ^ (z >> 30)).wrapping_mul(0xBF58476D1CE4E5B9); z = (z ^ (z >> 27)).wrapping_mul(0x94D049BB133111EB); z ^ (z >> 31) } fn below(&mut self, n: u64) -> u64 { self.next() % n } }

struct S { log: Log, t0: tokio::time::Instant, name: usize, n: u64, runs: u32 }
struct Args { log: Log, t0: tokio::time::Instant, name: usize }
#[derive(Clone)]
struct M { uid: u64, sleep: u64 }
impl Actor for S {
    type Args = Args; type Error = String;
    async fn on_start(a: Args, _: &ActorRef<Self>) -> Result<Self, String> { a.log.p(a.t0, format!("A{} start", a.name)); Ok(S { log: a.log, t0: a.t0, name: a.name, n: 0, runs: 0 }) }
    async fn on_run(&mut self, _: &ActorWeak<Self>) -> Result<bool, String> {
        self.runs += 1; self.log.p(self.t0, format!("A{} run#{}", self.name, self.runs));
        tokio::time::sleep(Duration::from_millis(6)).await;
        self.log.p(self.t0, format!("A{} run#{} done", self.name, self.runs));
        Ok(self.runs < 3)
    }
    async fn on_stop(&mut self, _: &ActorWeak<Self>, k: bool) -> Result<(), String> { self.log.p(self.t0, format!("A{} stop killed={k}", self.name)); Ok(()) }
}
impl Message<M> for S { type Reply = u64;
    async fn handle(&mut self, m: M, _: &ActorRef<Self>) -> u64 { self.n += 1; self.log.p(self.t0, format!("A{} h uid={} n={}", self.name, m.uid, self.n)); if m.sleep > 0 { tokio::time::sleep(Duration::from_millis(m.sleep)).await; } self.log.p(self.t0, format!("A{} x uid={}", self.name, m.uid)); m.uid * 1000 + self.n } }

enum H { Direct(ActorRef<S>), Erased(Box<dyn TellHandler<M>>, Box<dyn AskHandler<M, u64>>, Box<dyn ActorControl>) }
impl H {
    fn new(r: &ActorRef<S>, erased: bool, rng: &mut Rng) -> H { if !erased { let _ = rng.next(); H::Direct(r.clone()) } else {
        let t: Box<dyn TellHandler<M>> = if rng.below(2) == 0 { r.into() } else { r.clone().into() };
        let a: Box<dyn AskHandler<M, u64>> = r.into(); let a = a.clone_boxed();
        let c: Box<dyn ActorControl> = r.into(); H::Erased(t, a, c) } }
    async fn tell(&self, m: M) -> String { match self { H::Direct(r) => r.tell(m).await, H::Erased(t, _, _) => t.tell(m).await }.map_err(|e| format!("{:?}", std::mem::discriminant(&e))).map(|_| "ok".to_string()).unwrap_or_else(|e| e) }
    async fn tell_to(&self, m: M, d: u64) -> String { let d = Duration::from_millis(d); match self { H::Direct(r) => r.tell_with_timeout(m, d).await, H::Erased(t, _, _) => t.tell_with_timeout(m, d).await }.map(|_| "ok".to_string()).unwrap_or_else(|e| format!("err retry={}", e.is_retryable())) }
    async fn ask(&self, m: M) -> String { match self { H::Direct(r) => r.ask(m).await, H::Erased(_, a, _) => a.ask(m).await }.map(|v| format!("ok {v}")).unwrap_or_else(|e| format!("err retry={}", e.is_retryable())) }
    async fn ask_to(&self, m: M, d: u64) -> String { let d = Duration::from_millis(d); match self { H::Direct(r) => r.ask_with_timeout(m, d).await, H::Erased(_, a, _) => a.ask_with_timeout(m, d).await }.map(|v| format!("ok {v}")).unwrap_or_else(|e| format!("err retry={}", e.is_retryable())) }
    async fn stop(&self) { match self { H::Direct(r) => r.stop().await.unwrap(), H::Erased(_, _, c) => c.stop().await.unwrap() } }
    fn kill(&self) { match self { H::Direct(r) => r.kill().unwrap(), H::Erased(t, _, _) => t.as_control().kill().unwrap() } }
    fn alive(&self) -> bool { match self { H::Direct(r) => r.is_alive(), H::Erased(_, a, _) => a.as_control().is_alive() } }
}

fn run(seed: u64, erased: bool) -> (u64, Vec<String>) {
    let rt = tokio::runtime::Builder::new_current_thread().enable_time().start_paused(true).build().unwrap();
    let log = Log::default();
    let l2 = log.clone();
    rt.block_on(async move {
        let t0 = tokio::time::Instant::now();
        let mut rng = Rng(seed);
        let nact = 1 + rng.below(3) as usize;
        let mut refs = vec![]; let mut jhs = vec![];
        for i in 0..nact { let cap = 1 + rng.below(4) as usize; let (r, jh) = spawn_with_mailbox_capacity::<S>(Args { log: l2.clone(), t0, name: i }, cap); refs.push(r); jhs.push(jh); }
        let mut tasks = vec![];
        let ncl = 2 + rng.below(4);
        let mut uid = 0u64;
        for c in 0..ncl {
            let target = rng.below(nact as u64) as usize;
            let h = H::new(&refs[target], erased, &mut rng);
            let mut ops = vec![];
            for _ in 0..(3 + rng.below(6)) { uid += 1; ops.push((rng.below(8), M { uid, sleep: 2 * rng.below(4) }, 2 * (1 + rng.below(4)), rng.below(3))); }
            let l3 = l2.clone();
            tasks.push(tokio::spawn(async move {
                for (kind, m, d, pre) in ops {
                    match pre { 1 => tokio::task::yield_now().await, 2 => tokio::time::sleep(Duration::from_millis(d)).await, _ => {} }
                    let u = m.uid;
                    l3.p(t0, format!("c{c} start k={kind} uid={u}"));
                    let r = match kind { 0 | 1 => h.tell(m).await, 2 => h.tell_to(m, d).await, 3 | 4 => h.ask(m).await, 5 => h.ask_to(m, d).await, 6 => { h.stop().await; "stopped".into() } _ => { if u % 3 == 0 { h.kill(); "killed".into() } else { format!("alive={}", h.alive()) } } };
                    l3.p(t0, format!("c{c} end uid={u} -> {r}"));
                }
                drop(h);
            }));
        }
        tokio::time::sleep(Duration::from_secs(3600)).await;
        for (i, t) in tasks.iter().enumerate() { l2.p(t0, format!("client{i} finished={}", t.is_finished())); }
        drop(refs);
        tokio::time::sleep(Duration::from_secs(3600)).await;
        for (i, j) in jhs.into_iter().enumerate() { let f = j.is_finished(); if f { let r = j.await; l2.p(t0, format!("A{i} result {:?}", r.map(|r| (r.is_completed(), r.was_killed())).map_err(|e| e.is_panic()))); } else { l2.p(t0, format!("A{i} NOT finished")); } }
    });
    let v = log.0.lock().unwrap().clone();
    let mut h = DefaultHasher::new(); v.hash(&mut h); (h.finish(), v)
}

fn main() {
    let n: u64 = std::env::args().nth(1).map(|s| s.parse().unwrap()).unwrap_or(2000);
    let mut diff = 0; let mut total_events = 0usize; let mut acc = 0u64;
    let t = std::time::Instant::now();
    for seed in 0..n {
        let (h1, v1) = run(seed, false);
        let (h2, v2) = run(seed, true);
        total_events += v1.len();
        acc = acc.rotate_left(5) ^ h1;
        if h1 != h2 { diff += 1; if diff <= 2 { println!("DIFF seed {seed}"); for (a, b) in v1.iter().zip(v2.iter()) { if a != b { println!("  direct: {a}\n  erased: {b}"); break; } } } }
    }
    println!("scenarios={n} differing={diff} events={total_events} combined_hash={acc:016x} wall={:?}", t.elapsed());
}
