//! Small self-contained helpers: seeded PRNG, FNV hash, JSON emission (no external crates).

#[derive(Clone, Debug)]
pub struct Rng(pub u64);

impl Rng {
    pub fn new(seed: u64) -> Self {
        Rng(seed ^ 0x5DEECE66D_u64.wrapping_mul(0x9E3779B97F4A7C15))
    }
    /// Derive an independent stream.
    pub fn fork(&mut self, salt: u64) -> Rng {
        let a = self.next();
        Rng(a ^ salt.wrapping_mul(0xD6E8FEB86659FD93))
    }
    pub fn next(&mut self) -> u64 {
        self.0 = self.0.wrapping_add(0x9E3779B97F4A7C15);
        let mut z = self.0;
        z = (z ^ (z >> 30)).wrapping_mul(0xBF58476D1CE4E5B9);
        z = (z ^ (z >> 27)).wrapping_mul(0x94D049BB133111EB);
        z ^ (z >> 31)
    }
    pub fn below(&mut self, n: u64) -> u64 {
        if n == 0 {
            0
        } else {
            self.next() % n
        }
    }
    pub fn range(&mut self, lo: u64, hi_incl: u64) -> u64 {
        lo + self.below(hi_incl - lo + 1)
    }
    pub fn chance(&mut self, pct: u64) -> bool {
        self.below(100) < pct
    }
    pub fn pick<'a, T>(&mut self, v: &'a [T]) -> &'a T {
        &v[self.below(v.len() as u64) as usize]
    }
    /// Weighted choice: returns index.
    pub fn weighted(&mut self, w: &[u64]) -> usize {
        let total: u64 = w.iter().sum();
        if total == 0 {
            return 0;
        }
        let mut x = self.below(total);
        for (i, wi) in w.iter().enumerate() {
            if x < *wi {
                return i;
            }
            x -= wi;
        }
        w.len() - 1
    }
}

pub fn mix(a: u64, b: u64) -> u64 {
    let mut r = Rng(a ^ b.rotate_left(32).wrapping_mul(0x9E3779B97F4A7C15));
    r.next()
}

#[derive(Clone, Copy)]
pub struct Fnv(pub u64);
impl Default for Fnv {
    fn default() -> Self {
        Fnv(0xcbf29ce484222325)
    }
}
impl Fnv {
    pub fn write(&mut self, bytes: &[u8]) {
        for b in bytes {
            self.0 ^= *b as u64;
            self.0 = self.0.wrapping_mul(0x100000001b3);
        }
    }
    pub fn write_str(&mut self, s: &str) {
        self.write(s.as_bytes());
        self.write(&[0xff]);
    }
    pub fn write_u64(&mut self, v: u64) {
        self.write(&v.to_le_bytes());
    }
    pub fn finish(&self) -> u64 {
        // final avalanche
        let mut z = self.0;
        z = (z ^ (z >> 30)).wrapping_mul(0xBF58476D1CE4E5B9);
        z = (z ^ (z >> 27)).wrapping_mul(0x94D049BB133111EB);
        z ^ (z >> 31)
    }
}

pub fn json_str(s: &str) -> String {
    let mut o = String::with_capacity(s.len() + 2);
    o.push('"');
    for c in s.chars() {
        match c {
            '"' => o.push_str("\\\""),
            '\\' => o.push_str("\\\\"),
            '\n' => o.push_str("\\n"),
            '\r' => o.push_str("\\r"),
            '\t' => o.push_str("\\t"),
            c if (c as u32) < 0x20 => o.push_str(&format!("\\u{:04x}", c as u32)),
            c => o.push(c),
        }
    }
    o.push('"');
    o
}

/// Minimal JSON object builder.
#[derive(Default)]
pub struct JObj(Vec<String>);
impl JObj {
    pub fn new() -> Self {
        JObj(Vec::new())
    }
    pub fn s(mut self, k: &str, v: &str) -> Self {
        self.0.push(format!("{}:{}", json_str(k), json_str(v)));
        self
    }
    pub fn n(mut self, k: &str, v: u64) -> Self {
        self.0.push(format!("{}:{}", json_str(k), v));
        self
    }
    pub fn i(mut self, k: &str, v: i64) -> Self {
        self.0.push(format!("{}:{}", json_str(k), v));
        self
    }
    pub fn f(mut self, k: &str, v: f64) -> Self {
        self.0.push(format!("{}:{:.6}", json_str(k), v));
        self
    }
    pub fn b(mut self, k: &str, v: bool) -> Self {
        self.0.push(format!("{}:{}", json_str(k), v));
        self
    }
    pub fn raw(mut self, k: &str, v: &str) -> Self {
        self.0.push(format!("{}:{}", json_str(k), v));
        self
    }
    pub fn build(self) -> String {
        format!("{{{}}}", self.0.join(","))
    }
}

pub fn jarr(items: &[String]) -> String {
    format!("[{}]", items.join(","))
}

pub fn jarr_str(items: &[String]) -> String {
    let v: Vec<String> = items.iter().map(|s| json_str(s)).collect();
    jarr(&v)
}

/// Parse `--key value` / `--flag` style arguments.
pub struct Args {
    pub kv: std::collections::BTreeMap<String, String>,
    pub pos: Vec<String>,
}
impl Args {
    pub fn parse(args: &[String]) -> Args {
        let mut kv = std::collections::BTreeMap::new();
        let mut pos = vec![];
        let mut i = 0;
        while i < args.len() {
            let a = &args[i];
            if let Some(k) = a.strip_prefix("--") {
                if i + 1 < args.len() && !args[i + 1].starts_with("--") {
                    kv.insert(k.to_string(), args[i + 1].clone());
                    i += 2;
                } else {
                    kv.insert(k.to_string(), "1".to_string());
                    i += 1;
                }
            } else {
                pos.push(a.clone());
                i += 1;
            }
        }
        Args { kv, pos }
    }
    pub fn u64(&self, k: &str, d: u64) -> u64 {
        self.kv.get(k).and_then(|s| s.parse().ok()).unwrap_or(d)
    }
    pub fn str(&self, k: &str, d: &str) -> String {
        self.kv.get(k).cloned().unwrap_or_else(|| d.to_string())
    }
    pub fn has(&self, k: &str) -> bool {
        self.kv.contains_key(k)
    }
}
