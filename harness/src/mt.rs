use crate::util::Args;
pub fn cmd_mt(_a: &Args) -> i32 {
    eprintln!("mt: not implemented yet");
    2
}
