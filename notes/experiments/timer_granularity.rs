use rsactor::{spawn_with_mailbox_capacity, Actor, ActorRef, Message};
use std::time::Duration;
struct A;
struct Slow(u64 /*micros*/);
impl Actor for A { type Args=(); type Error=anyhow::Error; async fn on_start(_:(), _:&ActorRef<Self>)->Result<Self,Self::Error>{Ok(A)} }
impl Message<Slow> for A { type Reply=u64; async fn handle(&mut self,m:Slow,_:&ActorRef<Self>)->u64{ tokio::time::sleep(Duration::from_micros(m.0)).await; m.0 } }
fn main() {
    let rt = tokio::runtime::Builder::new_current_thread().enable_time().start_paused(true).build().unwrap();
    rt.block_on(async move {
        let (a, _ja) = spawn_with_mailbox_capacity::<A>((), 4);
        for (h, t) in [(10_000u64, 5_000u64), (5_000, 5_000), (4_999, 5_000), (5_001, 5_000), (3_300, 1_500), (1_400, 1_500), (1_500, 1_500), (700, 300), (200, 300)] {
            let t0 = tokio::time::Instant::now();
            let r = a.ask_with_timeout(Slow(h), Duration::from_micros(t)).await;
            let el = t0.elapsed();
            println!("handler={h}us timeout={t}us -> {:?} after {:?}", r.map_err(|e| e.is_retryable()), el);
            tokio::time::sleep(Duration::from_millis(50)).await;
        }
    });
}
