//! The scripted actor `SA`, strong/weak handle wrappers (direct and type-erased routing), and the
//! client-boundary call recorder used by every engine.

use crate::ev::*;
use crate::scen::*;
use crate::util::Rng;
use rsactor::{
    Actor, ActorControl, ActorRef, ActorResult, ActorWeak, AskHandler, Message, TellHandler,
    WeakActorControl, WeakAskHandler, WeakTellHandler,
};
use std::cell::RefCell;
use std::future::Future;
use std::pin::Pin;
use std::sync::atomic::{AtomicU64, Ordering};
use std::sync::{Arc, Mutex};
use std::task::{Context, Poll};
use std::time::Duration;
use tokio::task::JoinHandle;

thread_local! {
    pub static LAST_PANIC: RefCell<String> = const { RefCell::new(String::new()) };
}

/// an Identity names the actor type, displays as `Type(#id)` and equals any other Identity with the same fields
pub fn ident_ok(i: &rsactor::Identity) -> bool {
    i.name().ends_with("SA") && i.name() == i.type_name && format!("{i}") == format!("{}(#{})", i.type_name, i.id) && *i == rsactor::Identity::new(i.id, i.type_name)
}

pub fn install_panic_hook() {
    std::panic::set_hook(Box::new(move |info| {
        PANIC_COUNT.fetch_add(1, Ordering::Relaxed);
        let msg = if let Some(s) = info.payload().downcast_ref::<&str>() {
            s.to_string()
        } else if let Some(s) = info.payload().downcast_ref::<String>() {
            s.clone()
        } else if let Some(t) = info.payload().downcast_ref::<TypedPanic>() {
            t.0.clone()
        } else {
            "<non-string panic>".to_string()
        };
        if !msg.starts_with("scripted") && !msg.contains("Deadlock detected") {
            let loc = info
                .location()
                .map(|l| format!("{}:{}", l.file(), l.line()))
                .unwrap_or_default();
            let th = std::thread::current()
                .name()
                .unwrap_or("<unnamed>")
                .to_string();
            let mut g = PANICS.lock().unwrap_or_else(|e| e.into_inner());
            if g.len() < 1000 {
                g.push((th, format!("{msg} @ {loc}")));
            }
        }
        LAST_PANIC.with(|l| *l.borrow_mut() = msg);
    }));
}

// ---------------------------------------------------------------------------------------------
// Messages (five reply types)
// ---------------------------------------------------------------------------------------------
/// Rides along with every scripted message: if the message is destroyed without its handler having been entered (dropped
/// with the mailbox, by a drain, by a failed send), the scenario's log gets a note. The instant at which a queued envelope
/// is destroyed is otherwise invisible from outside - and it is the instant at which a queued ask has failed.
pub struct Witness {
    uid: u64,
    handled: std::sync::atomic::AtomicBool,
}
impl Witness {
    fn new(uid: u64) -> Witness {
        Witness { uid, handled: std::sync::atomic::AtomicBool::new(false) }
    }
    pub fn handled(&self) {
        self.handled.store(true, Ordering::Relaxed);
    }
}
impl Drop for Witness {
    fn drop(&mut self) {
        if !self.handled.load(Ordering::Relaxed) {
            let uid = self.uid;
            let _ = CUR_LOG.try_with(|c| {
                if let Ok(g) = c.try_borrow() {
                    if let Some(l) = g.as_ref() {
                        l.push(K::Note(format!("destroyed-unhandled uid {uid}")));
                    }
                }
            });
        }
    }
}
macro_rules! scripted_message {
    ($n:ident) => {
        pub struct $n {
            pub b: Body,
            pub w: Witness,
        }
        /// same spelling as the tuple-struct constructor it replaces
        #[allow(non_snake_case)]
        pub fn $n(b: Body) -> $n {
            let w = Witness::new(b.uid);
            $n { b, w }
        }
    };
}
scripted_message!(MU);
scripted_message!(MS);
scripted_message!(MN);
scripted_message!(MR);
scripted_message!(MJ);

pub fn reply_s(base: u64) -> String {
    format!("s{base}")
}
pub fn reply_r(base: u64) -> Result<u64, String> {
    if base % 3 == 0 {
        Err(format!("e{base}"))
    } else {
        Ok(base)
    }
}
pub fn reply_j(base: u64) -> u64 {
    base + 7
}

// ---------------------------------------------------------------------------------------------
// Shared per-scenario state
// ---------------------------------------------------------------------------------------------
pub struct Shared {
    pub log: Log,
    pub gates: Vec<tokio::sync::Semaphore>,
    pub peers: Mutex<Vec<Option<H>>>,
    pub ids: Mutex<Vec<u64>>,
    pub weaks: Mutex<Vec<Option<ActorWeak<SA>>>>,
    pub model: Mutex<Vec<i64>>,
    pub opctr: AtomicU64,
    pub erased: bool,
    pub erng: Mutex<Rng>,
}

impl Shared {
    pub fn new(n_actors: usize, ngates: usize, erased: bool, virtual_time: bool, eseed: u64) -> Arc<Shared> {
        Arc::new(Shared {
            log: Log::new(virtual_time),
            gates: (0..ngates).map(|_| tokio::sync::Semaphore::new(0)).collect(),
            peers: Mutex::new((0..n_actors).map(|_| None).collect()),
            ids: Mutex::new(vec![0; n_actors]),
            weaks: Mutex::new((0..n_actors).map(|_| None).collect()),
            model: Mutex::new(vec![0; n_actors]),
            opctr: AtomicU64::new(0),
            erased,
            erng: Mutex::new(Rng::new(eseed)),
        })
    }
    pub fn next_op(&self) -> u64 {
        self.opctr.fetch_add(1, Ordering::Relaxed) + 1
    }
    pub fn model_add(&self, actor: usize, d: i64, what: &'static str) {
        let mut g = self.model.lock().unwrap_or_else(|e| e.into_inner());
        g[actor] += d;
        let m = g[actor];
        self.log.push(K::RefOp { actor, what, model: m });
    }
    pub fn model_of(&self, actor: usize) -> i64 {
        self.model.lock().unwrap_or_else(|e| e.into_inner())[actor]
    }
    pub fn erand(&self, n: u64) -> u64 {
        self.erng.lock().unwrap_or_else(|e| e.into_inner()).below(n)
    }
    pub fn peer(&self, t: usize) -> Option<H> {
        let g = self.peers.lock().unwrap_or_else(|e| e.into_inner());
        g.get(t).and_then(|o| o.as_ref().map(|h| h.dup(self)))
    }
    pub fn viol(&self, s: String) {
        self.log.push(K::Note(format!("VIOL:{s}")));
    }
}

// ---------------------------------------------------------------------------------------------
// Type-erased strong / weak bundles
// ---------------------------------------------------------------------------------------------
pub struct ES {
    tu: Box<dyn TellHandler<MU>>,
    au: Box<dyn AskHandler<MU, u64>>,
    ts: Box<dyn TellHandler<MS>>,
    as_: Box<dyn AskHandler<MS, String>>,
    tn: Box<dyn TellHandler<MN>>,
    an: Box<dyn AskHandler<MN, ()>>,
    tr: Box<dyn TellHandler<MR>>,
    ar: Box<dyn AskHandler<MR, Result<u64, String>>>,
    tj: Box<dyn TellHandler<MJ>>,
    aj: Box<dyn AskHandler<MJ, JoinHandle<u64>>>,
    ctl: Box<dyn ActorControl>,
    /// typed weak reference kept only as a source for the `From<ActorWeak>` / `From<&ActorWeak>` conversions into weak
    /// trait objects (a weak reference never keeps the actor alive - which is itself part of what C16/C07 check)
    w: ActorWeak<SA>,
}

pub struct EW {
    tu: Box<dyn WeakTellHandler<MU>>,
    au: Box<dyn WeakAskHandler<MU, u64>>,
    ts: Box<dyn WeakTellHandler<MS>>,
    as_: Box<dyn WeakAskHandler<MS, String>>,
    tn: Box<dyn WeakTellHandler<MN>>,
    an: Box<dyn WeakAskHandler<MN, ()>>,
    tr: Box<dyn WeakTellHandler<MR>>,
    ar: Box<dyn WeakAskHandler<MR, Result<u64, String>>>,
    tj: Box<dyn WeakTellHandler<MJ>>,
    aj: Box<dyn WeakAskHandler<MJ, JoinHandle<u64>>>,
    ctl: Box<dyn WeakActorControl>,
    w: ActorWeak<SA>,
}

fn derive_tell<M: Send + 'static>(r: &ActorRef<SA>, sh: &Shared) -> Box<dyn TellHandler<M>>
where
    SA: Message<M>,
{
    match sh.erand(4) {
        0 => r.into(),
        1 => r.clone().into(),
        2 => {
            let b: Box<dyn TellHandler<M>> = r.into();
            b.clone_boxed()
        }
        _ => {
            let b: Box<dyn TellHandler<M>> = r.into();
            match b.downgrade().upgrade() {
                Some(x) => x,
                None => {
                    sh.viol("C16 upgrade of a weak tell handler returned None while its strong origin is alive".into());
                    b
                }
            }
        }
    }
}

fn derive_ask<M: Send + 'static>(
    r: &ActorRef<SA>,
    sh: &Shared,
) -> Box<dyn AskHandler<M, <SA as Message<M>>::Reply>>
where
    SA: Message<M>,
{
    match sh.erand(4) {
        0 => r.into(),
        1 => r.clone().into(),
        2 => {
            let b: Box<dyn AskHandler<M, <SA as Message<M>>::Reply>> = r.into();
            b.clone()
        }
        _ => {
            let b: Box<dyn AskHandler<M, <SA as Message<M>>::Reply>> = r.into();
            match b.downgrade().upgrade() {
                Some(x) => x,
                None => {
                    sh.viol("C16 upgrade of a weak ask handler returned None while its strong origin is alive".into());
                    b
                }
            }
        }
    }
}

impl ES {
    pub fn from_ref(r: ActorRef<SA>, sh: &Shared) -> ES {
        let tu = derive_tell::<MU>(&r, sh);
        let ctl: Box<dyn ActorControl> = match sh.erand(4) {
            0 => (&r).into(),
            1 => r.clone().into(),
            2 => tu.as_control().clone_boxed(),
            _ => {
                let c: Box<dyn ActorControl> = (&r).into();
                match c.downgrade().upgrade() {
                    Some(x) => x,
                    None => {
                        sh.viol("C16 upgrade of a weak control returned None while its strong origin is alive".into());
                        c
                    }
                }
            }
        };
        ES {
            au: derive_ask::<MU>(&r, sh),
            ts: derive_tell::<MS>(&r, sh),
            as_: derive_ask::<MS>(&r, sh),
            tn: derive_tell::<MN>(&r, sh),
            an: derive_ask::<MN>(&r, sh),
            tr: derive_tell::<MR>(&r, sh),
            ar: derive_ask::<MR>(&r, sh),
            tj: derive_tell::<MJ>(&r, sh),
            aj: derive_ask::<MJ>(&r, sh),
            tu,
            ctl,
            w: ActorRef::downgrade(&r),
        }
    }
    pub fn ask_u(&self) -> &dyn AskHandler<MU, u64> {
        self.au.as_ref()
    }
    pub fn dup(&self) -> ES {
        ES {
            tu: self.tu.clone(),
            au: self.au.clone_boxed(),
            ts: self.ts.clone_boxed(),
            as_: self.as_.clone(),
            tn: self.tn.clone(),
            an: self.an.clone_boxed(),
            tr: self.tr.clone(),
            ar: self.ar.clone(),
            tj: self.tj.clone_boxed(),
            aj: self.aj.clone(),
            ctl: self.ctl.clone(),
            w: self.w.clone(),
        }
    }
    pub fn downgrade(&self, sh: &Shared) -> EW {
        // each weak trait object comes either from downgrading the strong one or from one of the From conversions
        fn wt<M: Send + 'static>(b: &dyn TellHandler<M>, w: &ActorWeak<SA>, sh: &Shared) -> Box<dyn WeakTellHandler<M>>
        where
            SA: Message<M>,
        {
            match sh.erand(3) {
                0 => b.downgrade(),
                1 => w.into(),
                _ => w.clone().into(),
            }
        }
        fn wa<M: Send + 'static>(b: &dyn AskHandler<M, <SA as Message<M>>::Reply>, w: &ActorWeak<SA>, sh: &Shared) -> Box<dyn WeakAskHandler<M, <SA as Message<M>>::Reply>>
        where
            SA: Message<M>,
        {
            match sh.erand(3) {
                0 => b.downgrade(),
                1 => w.into(),
                _ => w.clone().into(),
            }
        }
        EW {
            tu: wt::<MU>(self.tu.as_ref(), &self.w, sh),
            au: wa::<MU>(self.au.as_ref(), &self.w, sh),
            ts: wt::<MS>(self.ts.as_ref(), &self.w, sh),
            as_: wa::<MS>(self.as_.as_ref(), &self.w, sh),
            tn: wt::<MN>(self.tn.as_ref(), &self.w, sh),
            an: wa::<MN>(self.an.as_ref(), &self.w, sh),
            tr: wt::<MR>(self.tr.as_ref(), &self.w, sh),
            ar: wa::<MR>(self.ar.as_ref(), &self.w, sh),
            tj: wt::<MJ>(self.tj.as_ref(), &self.w, sh),
            aj: wa::<MJ>(self.aj.as_ref(), &self.w, sh),
            ctl: match sh.erand(3) {
                0 => self.ctl.downgrade(),
                1 => (&self.w).into(),
                _ => self.w.clone().into(),
            },
            w: self.w.clone(),
        }
    }
    fn control(&self, sh: &Shared) -> &dyn ActorControl {
        match sh.erand(4) {
            0 => self.ctl.as_ref(),
            1 => self.tu.as_control(),
            2 => self.ar.as_control(),
            _ => self.tj.as_control(),
        }
    }
    /// every view of the same actor must agree on identity / liveness
    fn views(&self) -> Vec<(&'static str, rsactor::Identity, bool)> {
        vec![
            ("ctl", self.ctl.identity(), self.ctl.is_alive()),
            ("tell<MU>.as_control", self.tu.as_control().identity(), self.tu.as_control().is_alive()),
            ("ask<MU>.as_control", self.au.as_control().identity(), self.au.as_control().is_alive()),
            ("tell<MS>.as_control", self.ts.as_control().identity(), self.ts.as_control().is_alive()),
            ("ask<MS>.as_control", self.as_.as_control().identity(), self.as_.as_control().is_alive()),
            ("tell<MN>.as_control", self.tn.as_control().identity(), self.tn.as_control().is_alive()),
            ("ask<MN>.as_control", self.an.as_control().identity(), self.an.as_control().is_alive()),
            ("tell<MR>.as_control", self.tr.as_control().identity(), self.tr.as_control().is_alive()),
            ("ask<MR>.as_control", self.ar.as_control().identity(), self.ar.as_control().is_alive()),
            ("tell<MJ>.as_control", self.tj.as_control().identity(), self.tj.as_control().is_alive()),
            ("ask<MJ>.as_control", self.aj.as_control().identity(), self.aj.as_control().is_alive()),
        ]
    }
}

impl EW {
    pub fn dup(&self) -> EW {
        EW {
            tu: self.tu.clone(),
            au: self.au.clone_boxed(),
            ts: self.ts.clone(),
            as_: self.as_.clone_boxed(),
            tn: self.tn.clone(),
            an: self.an.clone(),
            tr: self.tr.clone_boxed(),
            ar: self.ar.clone(),
            tj: self.tj.clone(),
            aj: self.aj.clone_boxed(),
            ctl: self.ctl.clone(),
            w: self.w.clone(),
        }
    }
    pub fn upgrade(&self, sh: &Shared) -> Option<ES> {
        // upgrade every member; all must agree
        let tu = self.tu.upgrade();
        let au = self.au.upgrade();
        let ts = self.ts.upgrade();
        let as_ = self.as_.upgrade();
        let tn = self.tn.upgrade();
        let an = self.an.upgrade();
        let tr = self.tr.upgrade();
        let ar = self.ar.upgrade();
        let tj = self.tj.upgrade();
        let aj = self.aj.upgrade();
        let ctl = self.ctl.upgrade();
        let somes = [
            tu.is_some(),
            au.is_some(),
            ts.is_some(),
            as_.is_some(),
            tn.is_some(),
            an.is_some(),
            tr.is_some(),
            ar.is_some(),
            tj.is_some(),
            aj.is_some(),
            ctl.is_some(),
        ];
        let n = somes.iter().filter(|b| **b).count();
        if n != 0 && n != somes.len() {
            // the first successful upgrade keeps the actor's senders alive, so later ones must succeed too;
            // the converse (first None, later Some) cannot happen without a concurrent upgrader either
            sh.viol(format!("C16 weak erased handles of one actor disagree on upgrade: {somes:?}"));
        }
        Some(ES {
            tu: tu?,
            au: au?,
            ts: ts?,
            as_: as_?,
            tn: tn?,
            an: an?,
            tr: tr?,
            ar: ar?,
            tj: tj?,
            aj: aj?,
            ctl: ctl?,
            w: self.w.clone(),
        })
    }
    fn wcontrol(&self, sh: &Shared) -> &dyn WeakActorControl {
        match sh.erand(3) {
            0 => self.ctl.as_ref(),
            1 => self.tu.as_weak_control(),
            _ => self.as_.as_weak_control(),
        }
    }
}

pub enum H {
    D(ActorRef<SA>),
    E(Box<ES>),
}
pub enum Wk {
    D(ActorWeak<SA>),
    E(Box<EW>),
}

impl H {
    pub fn from_ref(r: ActorRef<SA>, sh: &Shared) -> H {
        if sh.erased {
            H::E(Box::new(ES::from_ref(r, sh)))
        } else {
            H::D(r)
        }
    }
    pub fn dup(&self, _sh: &Shared) -> H {
        match self {
            H::D(r) => H::D(r.clone()),
            H::E(e) => H::E(Box::new(e.dup())),
        }
    }
    pub fn downgrade(&self, sh: &Shared) -> Wk {
        match self {
            H::D(r) => Wk::D(ActorRef::downgrade(r)),
            H::E(e) => {
                Wk::E(Box::new(e.downgrade(sh)))
            }
        }
    }
    pub fn is_alive(&self, sh: &Shared) -> bool {
        match self {
            H::D(r) => r.is_alive(),
            H::E(e) => {
                let v = e.views();
                let first = v[0].2;
                for (name, _, al) in &v {
                    if *al != first {
                        sh.viol(format!("C16 views of one actor disagree on is_alive: ctl={first} {name}={al}"));
                    }
                }
                e.control(sh).is_alive()
            }
        }
    }
    pub fn identity(&self, sh: &Shared) -> rsactor::Identity {
        match self {
            H::D(r) => r.identity(),
            H::E(e) => {
                let v = e.views();
                let first = v[0].1;
                for (name, id, _) in &v {
                    if *id != first {
                        sh.viol(format!("C16/C11 views of one actor disagree on identity: ctl={first} {name}={id}"));
                    }
                }
                e.control(sh).identity()
            }
        }
    }
    pub fn kill(&self, sh: &Shared) -> rsactor::Result<()> {
        match self {
            H::D(r) => r.kill(),
            H::E(e) => e.control(sh).kill(),
        }
    }
    pub async fn stop(&self, sh: &Shared) -> rsactor::Result<()> {
        match self {
            H::D(r) => r.stop().await,
            H::E(e) => {
                let c = e.control(sh);
                c.stop().await
            }
        }
    }
    /// Create (without polling) the future of a stop().
    pub fn make_stop<'a>(&'a self, sh: &Shared) -> Pin<Box<dyn Future<Output = rsactor::Result<()>> + Send + 'a>> {
        use futures::FutureExt;
        match self {
            H::D(r) => r.stop().boxed(),
            H::E(e) => e.control(sh).stop(),
        }
    }
    /// Create (without polling) the future of a tell / tell_with_timeout / ask of an `MU` message.
    pub fn make_u<'a>(&'a self, kind: SendKind, body: Body) -> Pin<Box<dyn Future<Output = Res> + Send + 'a>> {
        use futures::FutureExt;
        match (self, kind) {
            (H::D(r), SendKind::Tell) => r.tell(MU(body)).map(|x| to_res(x, |_| Rep::None)).boxed(),
            (H::D(r), SendKind::TellTo(ms)) => r.tell_with_timeout(MU(body), to_dur(ms)).map(|x| to_res(x, |_| Rep::None)).boxed(),
            (H::D(r), SendKind::AskTo(ms)) => r.ask_with_timeout(MU(body), to_dur(ms)).map(|x| to_res(x, Rep::U)).boxed(),
            (H::D(r), _) => r.ask(MU(body)).map(|x| to_res(x, Rep::U)).boxed(),
            (H::E(e), SendKind::Tell) => e.tu.tell(MU(body)).map(|x| to_res(x, |_| Rep::None)).boxed(),
            (H::E(e), SendKind::TellTo(ms)) => e.tu.tell_with_timeout(MU(body), to_dur(ms)).map(|x| to_res(x, |_| Rep::None)).boxed(),
            (H::E(e), SendKind::AskTo(ms)) => e.au.ask_with_timeout(MU(body), to_dur(ms)).map(|x| to_res(x, Rep::U)).boxed(),
            (H::E(e), _) => e.au.ask(MU(body)).map(|x| to_res(x, Rep::U)).boxed(),
        }
    }
    /// direct access for metrics (only meaningful in direct mode)
    pub fn as_ref_direct(&self) -> Option<&ActorRef<SA>> {
        match self {
            H::D(r) => Some(r),
            H::E(_) => None,
        }
    }
}

impl Wk {
    pub fn dup(&self) -> Wk {
        match self {
            Wk::D(w) => Wk::D(w.clone()),
            Wk::E(e) => Wk::E(Box::new(e.dup())),
        }
    }
    pub fn upgrade(&self, sh: &Shared) -> Option<H> {
        match self {
            Wk::D(w) => w.upgrade().map(H::D),
            Wk::E(e) => e.upgrade(sh).map(|x| H::E(Box::new(x))),
        }
    }
    pub fn is_alive(&self, sh: &Shared) -> bool {
        match self {
            Wk::D(w) => w.is_alive(),
            Wk::E(e) => e.wcontrol(sh).is_alive(),
        }
    }
    pub fn identity(&self, sh: &Shared) -> rsactor::Identity {
        match self {
            Wk::D(w) => w.identity(),
            Wk::E(e) => e.wcontrol(sh).identity(),
        }
    }
}

// ---------------------------------------------------------------------------------------------
// Client-boundary call recorder
// ---------------------------------------------------------------------------------------------
pub struct CallGuard {
    log: Log,
    op: u64,
    done: bool,
}
impl CallGuard {
    pub fn start(sh: &Shared, actor: usize, kind: OpKind, mty: char, uid: u64, to: u64, ctx: Ctx) -> CallGuard {
        let op = sh.next_op();
        if !tokio::task::coop::has_budget_remaining() {
            // the caller's cooperative budget is used up: the call's first budgeted operation will yield instead of completing
            sh.log.push(K::Note(format!("nobudget {op}")));
        }
        sh.log.push(K::CallStart {
            op,
            actor,
            kind,
            mty,
            uid,
            to,
            ctx,
        });
        CallGuard {
            log: sh.log.clone(),
            op,
            done: false,
        }
    }
    pub fn end(mut self, res: Res) -> Res {
        self.done = true;
        self.log.push(K::CallEnd {
            op: self.op,
            res: res.clone(),
        });
        res
    }
}
impl Drop for CallGuard {
    fn drop(&mut self) {
        if !self.done {
            if std::thread::panicking() {
                let msg = LAST_PANIC.with(|l| l.borrow().clone());
                self.log.push(K::CallPanicked { op: self.op, msg });
            } else {
                self.log.push(K::CallCancelled { op: self.op });
            }
        }
    }
}

pub fn to_res<T>(r: rsactor::Result<T>, f: impl FnOnce(T) -> Rep) -> Res {
    match r {
        Ok(v) => Res::Ok(f(v)),
        Err(e) => {
            // C10: Timeout is the only retryable error
            let retry = e.is_retryable();
            let is_to = matches!(e, rsactor::Error::Timeout { .. });
            if retry != is_to {
                return Res::Other(format!("is_retryable()={retry} for {e:?}"));
            }
            map_err(&e)
        }
    }
}

pub fn mty_char(m: MTy) -> char {
    match m {
        MTy::U => 'U',
        MTy::S => 'S',
        MTy::N => 'N',
        MTy::R => 'R',
        MTy::J => 'J',
    }
}

/// timeouts are written in milliseconds; the HALF_MS flag adds half a millisecond (a timeout that is not a whole number of
/// timer ticks: it may only expire at the NEXT tick, so the monitors see it as `ms + 1`)
pub fn to_dur(ms: u64) -> Duration {
    if ms == DUR_MAX {
        Duration::MAX
    } else if ms & HALF_MS != 0 {
        Duration::from_micros((ms & !HALF_MS) * 1000 + 500)
    } else {
        Duration::from_millis(ms)
    }
}
pub fn to_ticks(ms: u64) -> u64 {
    if ms == DUR_MAX {
        1 << 45
    } else if ms & HALF_MS != 0 {
        (ms & !HALF_MS) + 1
    } else {
        ms
    }
}

pub fn kind_of(k: SendKind) -> (OpKind, u64) {
    match k {
        SendKind::Tell => (OpKind::Tell, 0),
        SendKind::TellTo(ms) => (OpKind::TellTo, to_ticks(ms)),
        SendKind::Ask => (OpKind::Ask, 0),
        SendKind::AskTo(ms) => (OpKind::AskTo, to_ticks(ms)),
        SendKind::AskJoin => (OpKind::AskJoin, 0),
    }
}

macro_rules! direct_send {
    ($r:expr, $M:ident, $kind:expr, $body:expr, $conv:expr) => {
        match $kind {
            SendKind::Tell => to_res($r.tell($M($body)).await, |_| Rep::None),
            SendKind::TellTo(ms) => to_res(
                $r.tell_with_timeout($M($body), to_dur(ms)).await,
                |_| Rep::None,
            ),
            SendKind::Ask | SendKind::AskJoin => to_res($r.ask($M($body)).await, $conv),
            SendKind::AskTo(ms) => to_res(
                $r.ask_with_timeout($M($body), to_dur(ms)).await,
                $conv,
            ),
        }
    };
}

macro_rules! erased_send {
    ($t:expr, $a:expr, $M:ident, $kind:expr, $body:expr, $conv:expr) => {
        match $kind {
            SendKind::Tell => to_res($t.tell($M($body)).await, |_| Rep::None),
            SendKind::TellTo(ms) => to_res(
                $t.tell_with_timeout($M($body), to_dur(ms)).await,
                |_| Rep::None,
            ),
            SendKind::Ask | SendKind::AskJoin => to_res($a.ask($M($body)).await, $conv),
            SendKind::AskTo(ms) => to_res(
                $a.ask_with_timeout($M($body), to_dur(ms)).await,
                $conv,
            ),
        }
    };
}

async fn join_to_res(jh: rsactor::Result<JoinHandle<u64>>) -> Res {
    match jh {
        Ok(j) => match j.await {
            Ok(v) => Res::Ok(Rep::J(v)),
            Err(e) => Res::Join(e.is_panic()),
        },
        Err(e) => map_err(&e),
    }
}

/// Perform one tell/ask-family operation through `h`, recording CallStart / CallEnd (or
/// CallCancelled / CallPanicked through the guard) at the boundary.
pub async fn send_via(
    sh: &Shared,
    ctx: Ctx,
    actor: usize,
    h: &H,
    kind: SendKind,
    mty: MTy,
    body: Body,
) -> Res {
    let (ok, to) = kind_of(kind);
    let g = CallGuard::start(sh, actor, ok, mty_char(mty), body.uid, to, ctx);
    let res = match h {
        H::D(r) => match mty {
            MTy::U => direct_send!(r, MU, kind, body, Rep::U),
            MTy::S => direct_send!(r, MS, kind, body, Rep::S),
            MTy::N => direct_send!(r, MN, kind, body, |_| Rep::Unit),
            MTy::R => direct_send!(r, MR, kind, body, Rep::R),
            MTy::J => match kind {
                SendKind::Tell => to_res(r.tell(MJ(body)).await, |_| Rep::None),
                SendKind::TellTo(ms) => to_res(
                    r.tell_with_timeout(MJ(body), to_dur(ms)).await,
                    |_| Rep::None,
                ),
                SendKind::AskTo(ms) => {
                    join_to_res(r.ask_with_timeout(MJ(body), to_dur(ms)).await).await
                }
                SendKind::Ask | SendKind::AskJoin => to_res(r.ask_join(MJ(body)).await, Rep::J),
            },
        },
        H::E(e) => match mty {
            MTy::U => erased_send!(e.tu, e.au, MU, kind, body, Rep::U),
            MTy::S => erased_send!(e.ts, e.as_, MS, kind, body, Rep::S),
            MTy::N => erased_send!(e.tn, e.an, MN, kind, body, |_| Rep::Unit),
            MTy::R => erased_send!(e.tr, e.ar, MR, kind, body, Rep::R),
            MTy::J => match kind {
                SendKind::Tell => to_res(e.tj.tell(MJ(body)).await, |_| Rep::None),
                SendKind::TellTo(ms) => to_res(
                    e.tj.tell_with_timeout(MJ(body), to_dur(ms)).await,
                    |_| Rep::None,
                ),
                SendKind::AskTo(ms) => {
                    join_to_res(e.aj.ask_with_timeout(MJ(body), to_dur(ms)).await).await
                }
                SendKind::Ask | SendKind::AskJoin => join_to_res(e.aj.ask(MJ(body)).await).await,
            },
        },
    };
    g.end(res)
}

pub async fn stop_via(sh: &Shared, ctx: Ctx, actor: usize, h: &H) -> Res {
    let g = CallGuard::start(sh, actor, OpKind::Stop, '-', 0, 0, ctx);
    let r = h.stop(sh).await;
    g.end(to_res(r, |_| Rep::None))
}

pub fn kill_via(sh: &Shared, ctx: Ctx, actor: usize, h: &H) -> Res {
    let g = CallGuard::start(sh, actor, OpKind::Kill, '-', 0, 0, ctx);
    let r = h.kill(sh);
    g.end(to_res(r, |_| Rep::None))
}

// ---------------------------------------------------------------------------------------------
// The scripted actor
// ---------------------------------------------------------------------------------------------
pub struct SaArgs {
    pub idx: usize,
    pub sh: Arc<Shared>,
    pub spec: ActorSpec,
}

pub struct SA {
    pub idx: usize,
    pub sh: Arc<Shared>,
    pub spec: ActorSpec,
    pub n: u64,
    pub run_done: usize,
    pub inv: u32,
    pub said_false: bool,
    pub journal: Vec<String>,
    pub held: Vec<(usize, H)>,
    /// number of steps of the current on_run script entry that have already been started; a cancelled
    /// and restarted invocation does not repeat them (each scripted send happens at most once)
    pub run_progress: usize,
}

impl Drop for SA {
    fn drop(&mut self) {
        let held = std::mem::take(&mut self.held);
        for (t, h) in held {
            drop(h);
            self.sh.model_add(t, -1, "held-dropped-with-actor");
        }
    }
}

enum Me<'a> {
    Strong(&'a ActorRef<SA>),
    Weak(&'a ActorWeak<SA>),
}

struct TmpRef<'a> {
    sh: &'a Shared,
    actor: usize,
}
impl Drop for TmpRef<'_> {
    fn drop(&mut self) {
        self.sh.model_add(self.actor, -1, "tmp-");
    }
}

impl SA {
    async fn run_steps(&mut self, hook: HookKind, steps: &[Step], me: Me<'_>, cur_uid: u64) {
        let sh = self.sh.clone();
        let idx = self.idx;
        let ctx = Ctx::Hook(idx, hook);
        for (si, st) in steps.iter().enumerate() {
            if hook == HookKind::Run {
                if si < self.run_progress {
                    continue;
                }
                self.run_progress = si + 1;
            }
            match st {
                Step::Sleep(ms) => tokio::time::sleep(Duration::from_millis(*ms)).await,
                Step::Yield => tokio::task::yield_now().await,
                Step::Coop(n) => {
                    for _ in 0..*n {
                        tokio::task::coop::consume_budget().await;
                    }
                }
                Step::Gate(g) => {
                    if let Ok(p) = sh.gates[*g].acquire().await {
                        p.forget();
                    }
                }
                Step::KillSelf => {
                    let g = CallGuard::start(&sh, idx, OpKind::Kill, '-', 0, 0, ctx);
                    let r = match &me {
                        Me::Strong(r) => r.kill(),
                        Me::Weak(w) => match w.upgrade() {
                            Some(r) => r.kill(),
                            None => Ok(()),
                        },
                    };
                    g.end(to_res(r, |_| Rep::None));
                }
                Step::StopSelf => {
                    let r = match &me {
                        Me::Strong(r) => Some((*r).clone()),
                        Me::Weak(w) => w.upgrade(),
                    };
                    if let Some(r) = r {
                        sh.model_add(idx, 1, "tmp+");
                        let _tmp = TmpRef { sh: &sh, actor: idx };
                        let h = H::from_ref(r, &sh);
                        tokio::select! {
                            biased;
                            _ = stop_via(&sh, ctx, idx, &h) => {}
                            _ = tokio::time::sleep(Duration::from_millis(4)) => {}
                        }
                        drop(h);
                    }
                }
                Step::KillPeer(t) => {
                    if let Some(h) = sh.peer(*t) {
                        sh.model_add(*t, 1, "tmp+");
                        let _tmp = TmpRef { sh: &sh, actor: *t };
                        kill_via(&sh, ctx, *t, &h);
                        drop(h);
                    }
                }
                Step::StopPeer(t) => {
                    if let Some(h) = sh.peer(*t) {
                        sh.model_add(*t, 1, "tmp+");
                        let _tmp = TmpRef { sh: &sh, actor: *t };
                        stop_via(&sh, ctx, *t, &h).await;
                        drop(h);
                    }
                }
                Step::Peer {
                    target,
                    kind,
                    mty,
                    body,
                } => {
                    if let Some(h) = sh.peer(*target) {
                        sh.model_add(*target, 1, "tmp+");
                        let _tmp = TmpRef { sh: &sh, actor: *target };
                        send_via(&sh, ctx, *target, &h, *kind, *mty, body.clone()).await;
                        drop(h);
                    }
                }
                Step::SelectAsk { target, ms, body } => {
                    if let Some(h) = sh.peer(*target) {
                        sh.model_add(*target, 1, "tmp+");
                        let _tmp = TmpRef { sh: &sh, actor: *target };
                        tokio::select! {
                            biased;
                            _ = send_via(&sh, ctx, *target, &h, SendKind::Ask, MTy::U, body.clone()) => {}
                            _ = tokio::time::sleep(Duration::from_millis(*ms)) => {}
                        }
                        drop(h);
                    }
                }
                Step::DetachedAsk { target, body } => {
                    if let Some(h) = sh.peer(*target) {
                        let sh2 = sh.clone();
                        let t = *target;
                        let b = body.clone();
                        sh.model_add(t, 1, "tmp+");
                        tokio::spawn(async move {
                            let _tmp = TmpRef { sh: &sh2, actor: t };
                            send_via(&sh2, Ctx::Detached(idx), t, &h, SendKind::Ask, MTy::U, b).await;
                            drop(h);
                        });
                    }
                }
                Step::SeqAsk2 { t1, b1, t2, b2 } => {
                    if let (Some(h1), Some(h2)) = (sh.peer(*t1), sh.peer(*t2)) {
                        sh.model_add(*t1, 1, "tmp+");
                        sh.model_add(*t2, 1, "tmp+");
                        let _tmp1 = TmpRef { sh: &sh, actor: *t1 };
                        let _tmp2 = TmpRef { sh: &sh, actor: *t2 };
                        // the futures exist from here on; each call is logged when it is awaited
                        let f1: futures::future::BoxFuture<'_, rsactor::Result<u64>> = match &h1 {
                            H::D(r) => Box::pin(r.ask(MU(b1.clone()))),
                            H::E(e) => e.ask_u().ask(MU(b1.clone())),
                        };
                        let f2: futures::future::BoxFuture<'_, rsactor::Result<u64>> = match &h2 {
                            H::D(r) => Box::pin(r.ask(MU(b2.clone()))),
                            H::E(e) => e.ask_u().ask(MU(b2.clone())),
                        };
                        let g = CallGuard::start(&sh, *t1, OpKind::Ask, 'U', b1.uid, 0, ctx);
                        let r1 = f1.await;
                        g.end(to_res(r1, Rep::U));
                        let g = CallGuard::start(&sh, *t2, OpKind::Ask, 'U', b2.uid, 0, ctx);
                        let r2 = f2.await;
                        g.end(to_res(r2, Rep::U));
                        drop(h1);
                        drop(h2);
                    }
                }
                Step::JoinAsk { t1, b1, t2, b2 } => {
                    if let (Some(h1), Some(h2)) = (sh.peer(*t1), sh.peer(*t2)) {
                        sh.model_add(*t1, 1, "tmp+");
                        sh.model_add(*t2, 1, "tmp+");
                        let _tmp1 = TmpRef { sh: &sh, actor: *t1 };
                        let _tmp2 = TmpRef { sh: &sh, actor: *t2 };
                        let f1 = send_via(&sh, ctx, *t1, &h1, SendKind::Ask, MTy::U, b1.clone());
                        let f2 = send_via(&sh, ctx, *t2, &h2, SendKind::Ask, MTy::S, b2.clone());
                        let _ = tokio::join!(f1, f2);
                        drop(h1);
                        drop(h2);
                    }
                }
                Step::JoinAskTo { t1, b1, t2, b2, ms } => {
                    if let (Some(h1), Some(h2)) = (sh.peer(*t1), sh.peer(*t2)) {
                        sh.model_add(*t1, 1, "tmp+");
                        sh.model_add(*t2, 1, "tmp+");
                        let _tmp1 = TmpRef { sh: &sh, actor: *t1 };
                        let _tmp2 = TmpRef { sh: &sh, actor: *t2 };
                        let f1 = send_via(&sh, ctx, *t1, &h1, SendKind::Ask, MTy::U, b1.clone());
                        let f2 = send_via(&sh, ctx, *t2, &h2, SendKind::AskTo(*ms), MTy::U, b2.clone());
                        let _ = tokio::join!(f1, f2);
                        drop(h1);
                        drop(h2);
                    }
                }
                Step::JoinAskPanic { target, body } => {
                    if let Some(h) = sh.peer(*target) {
                        sh.model_add(*target, 1, "tmp+");
                        let _tmp = TmpRef { sh: &sh, actor: *target };
                        let f1 = send_via(&sh, ctx, *target, &h, SendKind::Ask, MTy::U, body.clone());
                        let f2 = async {
                            tokio::task::yield_now().await;
                            if hook == HookKind::Handler {
                                sh.log.push(K::HPanic { actor: idx, uid: cur_uid });
                            }
                            panic!("scripted {:?} panic actor {} (join sibling)", hook, idx);
                        };
                        let _ = tokio::join!(f1, f2);
                        drop(h);
                    }
                }
                Step::HoldRef(t) => {
                    if let Some(h) = sh.peer(*t) {
                        self.held.push((*t, h));
                        sh.model_add(*t, 1, "hold");
                    }
                }
                Step::DropHeld(t) => {
                    if let Some(p) = self.held.iter().position(|(x, _)| x == t) {
                        let (_, h) = self.held.remove(p);
                        drop(h);
                        sh.model_add(*t, -1, "unhold");
                    }
                }
                Step::TellSelf(body) => {
                    let r = match &me {
                        Me::Strong(r) => Some((*r).clone()),
                        Me::Weak(w) => w.upgrade(),
                    };
                    if let Some(r) = r {
                        sh.model_add(idx, 1, "tmp+");
                        let _tmp = TmpRef { sh: &sh, actor: idx };
                        let h = H::from_ref(r, &sh);
                        send_via(&sh, ctx, idx, &h, SendKind::TellTo(4), MTy::U, body.clone()).await;
                        drop(h);
                    }
                }
                Step::HoldSelf => {
                    let r = match &me {
                        Me::Strong(r) => Some((*r).clone()),
                        Me::Weak(w) => w.upgrade(),
                    };
                    if let Some(r) = r {
                        self.held.push((idx, H::from_ref(r, &sh)));
                        sh.model_add(idx, 1, "hold-self");
                    }
                }
                Step::CheckUpgrade => {
                    let w = match &me {
                        Me::Strong(r) => ActorRef::downgrade(r),
                        Me::Weak(w) => (*w).clone(),
                    };
                    match w.upgrade() {
                        Some(r) => {
                            drop(r);
                            sh.model_add(idx, 0, "upgrade-some");
                        }
                        None => sh.model_add(idx, 0, "upgrade-none"),
                    }
                }
                Step::Busy(us) => {
                    let t = std::time::Instant::now();
                    if *us > 20_000 {
                        // long wall-clock handlers (metrics lower bound across the 1 s boundary): block instead of spinning
                        std::thread::sleep(Duration::from_micros(*us - 1_000));
                    }
                    while t.elapsed() < Duration::from_micros(*us) {
                        std::hint::spin_loop();
                    }
                }
                Step::Panic => {
                    if hook == HookKind::Handler {
                        sh.log.push(K::HPanic { actor: idx, uid: cur_uid });
                    }
                    panic!("scripted {:?} panic actor {}", hook, idx);
                }
                Step::CheckIdent => {
                    let (id, via) = match &me {
                        Me::Strong(r) => (r.identity(), "hook-ref"),
                        Me::Weak(w) => (w.identity(), "hook-weak"),
                    };
                    sh.log.push(K::Ident {
                        actor: idx,
                        via,
                        id: id.id,
                        type_ok: crate::sa::ident_ok(&id),
                    });
                }
            }
        }
    }

    async fn handle_body(&mut self, body: Body, r: &ActorRef<SA>) -> (u64, std::time::Instant) {
        self.n += 1;
        let t0 = std::time::Instant::now();
        self.sh.log.push(K::HEnter {
            actor: self.idx,
            uid: body.uid,
        });
        self.journal.push(format!("h{}", body.uid));
        let steps = body.steps;
        if body.flags & F_TRPANIC != 0 {
            TR_PANIC.lock().unwrap_or_else(|e| e.into_inner()).insert((r.identity().id, body.uid));
        }
        self.run_steps(HookKind::Handler, &steps, Me::Strong(r), body.uid).await;
        (body.uid * 1000 + self.n, t0)
    }

    fn exit(&self, uid: u64, rep: Rep, t0: std::time::Instant) {
        // measured before HExit is logged: the metrics guard encloses this interval
        let ns = t0.elapsed().as_nanos() as u64;
        self.sh.log.push(K::SelfTimed {
            actor: self.idx,
            uid,
            ns,
        });
        self.sh.log.push(K::HExit {
            actor: self.idx,
            uid,
            rep,
        });
    }
}

/// (actor id, uid) of told messages whose on_tell_result is scripted to panic
static TR_PANIC: std::sync::Mutex<std::collections::BTreeSet<(u64, u64)>> = std::sync::Mutex::new(std::collections::BTreeSet::new());

fn tell_result(rep: Rep, r: &ActorRef<SA>) {
    let id = r.identity().id;
    if let Some((log, idx)) = reg_get(id) {
        log.push(K::TellResult { actor: idx, rep });
    }
}

struct Polled<'a, F> {
    f: Pin<Box<F>>,
    log: Log,
    actor: usize,
    inv: u32,
    done: bool,
    _p: std::marker::PhantomData<&'a ()>,
}
impl<F: Future<Output = Result<bool, String>>> Future for Polled<'_, F> {
    type Output = Result<bool, String>;
    fn poll(mut self: Pin<&mut Self>, cx: &mut Context<'_>) -> Poll<Self::Output> {
        let (actor, inv) = (self.actor, self.inv);
        self.log.push(K::RunPoll { actor, inv });
        let r = self.f.as_mut().poll(cx);
        if let Poll::Ready(ref v) = r {
            self.done = true;
            let out = match v {
                Ok(true) => Out::True,
                Ok(false) => Out::False,
                Err(_) => Out::Err,
            };
            self.log.push(K::RunDone { actor, inv, out });
        }
        r
    }
}
impl<F> Drop for Polled<'_, F> {
    fn drop(&mut self) {
        if !self.done {
            if std::thread::panicking() {
                self.log.push(K::RunDone {
                    actor: self.actor,
                    inv: self.inv,
                    out: Out::Panic,
                });
            } else {
                self.log.push(K::RunCancel {
                    actor: self.actor,
                    inv: self.inv,
                });
            }
        }
    }
}

impl Actor for SA {
    type Args = SaArgs;
    type Error = String;

    async fn on_start(a: SaArgs, r: &ActorRef<Self>) -> Result<Self, String> {
        a.sh.log.push(K::StartEnter { actor: a.idx });
        let script = a.spec.start.clone();
        let mut st = SA {
            idx: a.idx,
            sh: a.sh,
            spec: a.spec,
            n: 0,
            run_done: 0,
            inv: 0,
            said_false: false,
            journal: vec!["start".to_string()],
            held: vec![],
            run_progress: 0,
        };
        if script.delay > 0 {
            tokio::time::sleep(Duration::from_millis(script.delay)).await;
        }
        st.run_steps(HookKind::Start, &script.steps, Me::Strong(r), 0).await;
        match script.out {
            Out::Err => {
                st.sh.log.push(K::StartExit {
                    actor: st.idx,
                    out: Out::Err,
                });
                Err(format!("start-err-{}", st.idx))
            }
            Out::Panic => {
                st.sh.log.push(K::StartExit {
                    actor: st.idx,
                    out: Out::Panic,
                });
                // payload kinds differ from hook to hook: a literal (&'static str) here, a typed value in on_run, Strings elsewhere
                panic!("scripted start panic")
            }
            _ => {
                st.sh.log.push(K::StartExit {
                    actor: st.idx,
                    out: Out::Ok,
                });
                Ok(st)
            }
        }
    }

    // A plain fn as well: its synchronous prefix runs whenever the framework CALLS on_run, whether or not the returned future
    // is ever polled. How often that happens is part of the observable behaviour (and must not depend on cargo features).
    #[allow(clippy::manual_async_fn)]
    fn on_run(&mut self, w: &ActorWeak<Self>) -> impl Future<Output = Result<bool, String>> + Send {
        self.sh.log.push(K::RunCall { actor: self.idx });
        self.on_run_body(w)
    }
    async fn on_stop(&mut self, w: &ActorWeak<Self>, killed: bool) -> Result<(), String> {
        self.sh.log.push(K::StopEnter {
            actor: self.idx,
            killed,
        });
        self.journal.push(format!("stop:{killed}"));
        let script = self.spec.stop.clone();
        if script.delay > 0 {
            tokio::time::sleep(Duration::from_millis(script.delay)).await;
        }
        self.run_steps(HookKind::Stop, &script.steps, Me::Weak(w), 0).await;
        self.sh.log.push(K::StopExit {
            actor: self.idx,
            out: script.out,
        });
        match script.out {
            Out::Err => Err(format!("stop-err-{}", self.idx)),
            Out::Panic => panic!("scripted stop panic actor {}", self.idx),
            _ => Ok(()),
        }
    }
}

impl SA {
    async fn on_run_body(&mut self, w: &ActorWeak<Self>) -> Result<bool, String> {
        self.inv += 1;
        let inv = self.inv;
        let idx = self.idx;
        let log = self.sh.log.clone();
        let fut = async {
            if self.said_false {
                // on_run must never execute again after Ok(false). The poll itself has been logged
                // (a C08 violation); park so that a broken idle flag cannot spin the runtime.
                std::future::pending::<()>().await;
            }
            if let Some(n0) = self.spec.run_err_when_handled {
                if self.n >= n0 {
                    self.run_done += 1;
                    self.journal.push(format!("run{}", self.run_done));
                    return Err(format!("run-err-{}", idx));
                }
            }
            let step = self.spec.run.get(self.run_done).cloned();
            let r: Result<bool, String> = match step {
                None => {
                    self.run_done += 1;
                    self.journal.push(format!("run{}", self.run_done));
                    Ok(false)
                }
                Some(st) => {
                    for s in &st.segs {
                        tokio::time::sleep(Duration::from_millis(*s)).await;
                    }
                    self.run_steps(HookKind::Run, &st.steps, Me::Weak(w), 0).await;
                    self.run_progress = 0;
                    self.run_done += 1;
                    if st.out != Out::Panic {
                        self.journal.push(format!("run{}", self.run_done));
                    }
                    match st.out {
                        Out::True => Ok(true),
                        Out::False | Out::Ok => Ok(false),
                        Out::Panic => std::panic::panic_any(TypedPanic(format!("scripted run panic actor {}", idx))),
                        Out::Err => Err(format!("run-err-{}", idx)),
                    }
                }
            };
            if r == Ok(false) {
                self.said_false = true;
            }
            r
        };
        Polled {
            f: Box::pin(fut),
            log,
            actor: idx,
            inv,
            done: false,
            _p: std::marker::PhantomData,
        }
        .await
    }
}

impl Message<MU> for SA {
    type Reply = u64;
    async fn handle(&mut self, m: MU, r: &ActorRef<Self>) -> u64 {
        m.w.handled();
        let uid = m.b.uid;
        let (base, t0) = self.handle_body(m.b, r).await;
        self.exit(uid, Rep::U(base), t0);
        base
    }
    fn on_tell_result(res: &u64, r: &ActorRef<Self>) {
        tell_result(Rep::U(*res), r);
        let id = r.identity().id;
        let uid = *res / 1000;
        if TR_PANIC.lock().unwrap_or_else(|e| e.into_inner()).remove(&(id, uid)) {
            if let Some((log, idx)) = reg_get(id) {
                log.push(K::HPanic { actor: idx, uid });
                panic!("scripted Handler panic actor {idx} (raised by on_tell_result)");
            }
        }
    }
}
impl Message<MS> for SA {
    type Reply = String;
    async fn handle(&mut self, m: MS, r: &ActorRef<Self>) -> String {
        m.w.handled();
        let uid = m.b.uid;
        let (base, t0) = self.handle_body(m.b, r).await;
        let v = reply_s(base);
        self.exit(uid, Rep::S(v.clone()), t0);
        v
    }
    fn on_tell_result(res: &String, r: &ActorRef<Self>) {
        tell_result(Rep::S(res.clone()), r)
    }
}
impl Message<MN> for SA {
    type Reply = ();
    // Deliberately NOT an `async fn`: `Message::handle` is a plain method returning a future, and an implementation may do
    // (timed) work synchronously before it returns that future. That work is part of handling the message.
    #[allow(clippy::manual_async_fn)]
    fn handle(&mut self, m: MN, r: &ActorRef<Self>) -> impl Future<Output = ()> + Send {
        m.w.handled();
        let pre = std::time::Instant::now();
        let eager = m.b.flags & F_EAGER != 0;
        if eager {
            while pre.elapsed() < Duration::from_micros(1500) {
                std::hint::spin_loop();
            }
        }
        async move {
            let uid = m.b.uid;
            let (_, t0) = self.handle_body(m.b, r).await;
            self.exit(uid, Rep::Unit, t0);
            if eager {
                // measured from the call of handle(): the metrics must cover the synchronous part as well
                self.sh.log.push(K::SelfTimed { actor: self.idx, uid, ns: pre.elapsed().as_nanos() as u64 });
            }
        }
    }
    fn on_tell_result(_: &(), r: &ActorRef<Self>) {
        tell_result(Rep::Unit, r)
    }
}
impl Message<MR> for SA {
    type Reply = Result<u64, String>;
    async fn handle(&mut self, m: MR, r: &ActorRef<Self>) -> Result<u64, String> {
        m.w.handled();
        let uid = m.b.uid;
        let (base, t0) = self.handle_body(m.b, r).await;
        let v = reply_r(base);
        self.exit(uid, Rep::R(v.clone()), t0);
        v
    }
    fn on_tell_result(res: &Result<u64, String>, r: &ActorRef<Self>) {
        tell_result(Rep::R(res.clone()), r)
    }
}
impl Message<MJ> for SA {
    type Reply = JoinHandle<u64>;
    async fn handle(&mut self, m: MJ, r: &ActorRef<Self>) -> JoinHandle<u64> {
        m.w.handled();
        let uid = m.b.uid;
        let flags = m.b.flags;
        let (base, t0) = self.handle_body(m.b, r).await;
        let log = self.sh.log.clone();
        let v = reply_j(base);
        let jh = tokio::spawn(async move {
            tokio::time::sleep(Duration::from_millis(2 * (1 + uid % 4))).await;
            if flags & F_JPANIC != 0 {
                log.push(K::JoinTask { uid, out: Out::Panic });
                panic!("scripted join task panic");
            }
            log.push(K::JoinTask { uid, out: Out::Ok });
            v
        });
        if flags & F_JABORT != 0 {
            jh.abort();
            self.sh.log.push(K::JoinTask { uid, out: Out::Err });
        }
        self.exit(uid, Rep::J(v), t0);
        jh
    }
    fn on_tell_result(_: &JoinHandle<u64>, r: &ActorRef<Self>) {
        tell_result(Rep::J(0), r)
    }
}

// ---------------------------------------------------------------------------------------------
// Spawning and watching
// ---------------------------------------------------------------------------------------------
pub fn spawn_sa(
    sh: &Arc<Shared>,
    idx: usize,
    spec: &ActorSpec,
) -> (ActorRef<SA>, JoinHandle<ActorResult<SA>>) {
    let args = SaArgs {
        idx,
        sh: sh.clone(),
        spec: spec.clone(),
    };
    let (r, jh) = match spec.cap {
        Some(c) => rsactor::spawn_with_mailbox_capacity::<SA>(args, c),
        None => rsactor::spawn::<SA>(args),
    };
    let id = r.identity().id;
    reg_insert(id, &sh.log, idx);
    sh.ids.lock().unwrap_or_else(|e| e.into_inner())[idx] = id;
    sh.weaks.lock().unwrap_or_else(|e| e.into_inner())[idx] = Some(ActorRef::downgrade(&r));
    (r, jh)
}

pub fn check_laws(ar: &ActorResult<SA>) -> Vec<String> {
    let mut v = vec![];
    let (completed, killed, phase, has_actor, has_err) = match ar {
        ActorResult::Completed { killed, .. } => (true, *killed, None, true, false),
        ActorResult::Failed {
            actor,
            phase,
            killed,
            ..
        } => (false, *killed, Some(*phase), actor.is_some(), true),
    };
    use rsactor::FailurePhase as P;
    let mut chk = |name: &str, got: bool, exp: bool| {
        if got != exp {
            v.push(format!("{name}()={got}, fields say {exp}"));
        }
    };
    chk("is_completed", ar.is_completed(), completed);
    chk("is_failed", ar.is_failed(), !completed);
    chk("was_killed", ar.was_killed(), killed);
    chk("stopped_normally", ar.stopped_normally(), completed && !killed);
    chk("is_startup_failed", ar.is_startup_failed(), phase == Some(P::OnStart));
    chk(
        "is_runtime_failed",
        ar.is_runtime_failed(),
        matches!(phase, Some(P::OnRun) | Some(P::OnRunThenOnStop)),
    );
    chk("is_cleanup_failed", ar.is_cleanup_failed(), phase == Some(P::OnRunThenOnStop));
    chk("is_stop_failed", ar.is_stop_failed(), phase == Some(P::OnStop));
    chk("has_actor", ar.has_actor(), has_actor);
    chk("actor().is_some", ar.actor().is_some(), has_actor);
    chk("error().is_some", ar.error().is_some(), has_err);
    v
}

/// What a supervisor sees the instant the JoinHandle resolves: through a reference upgraded from a weak one (if any
/// strong reference still exists) `is_alive()` must already be false and a send must fail.
async fn at_join(sh: &Arc<Shared>, idx: usize, weak: &ActorWeak<SA>) {
    if let Some(r) = weak.upgrade() {
        let alive = r.is_alive();
        sh.log.push(K::Sample {
            actor: idx,
            phase: "at-join",
            finished: true,
            alive: Some(alive),
            weak_alive: weak.is_alive(),
            upgrade: true,
            model: sh.model_of(idx),
        });
        let h = H::D(r);
        let uid = 8_000_000 + sh.next_op();
        send_via(sh, Ctx::Main, idx, &h, SendKind::Tell, MTy::U, Body::plain(uid)).await;
        drop(h);
    }
}

pub async fn watch(sh: Arc<Shared>, idx: usize, jh: JoinHandle<ActorResult<SA>>) {
    let weak = jh_weak(&sh, idx);
    let res = jh.await;
    let sum = match &res {
        Ok(ar) => EndSummary {
            panic: None,
            cancelled: false,
            completed: Some(matches!(ar, ActorResult::Completed { .. })),
            phase: match ar {
                ActorResult::Failed { phase, .. } => Some(phase.to_string()),
                _ => None,
            },
            killed: Some(match ar {
                ActorResult::Completed { killed, .. } | ActorResult::Failed { killed, .. } => *killed,
            }),
            err: match ar {
                ActorResult::Failed { error, .. } => Some(error.clone()),
                _ => None,
            },
            has_actor: Some(match ar {
                ActorResult::Completed { .. } => true,
                ActorResult::Failed { actor, .. } => actor.is_some(),
            }),
            journal: match ar {
                ActorResult::Completed { actor, .. } => Some(actor.journal.clone()),
                ActorResult::Failed { actor, .. } => actor.as_ref().map(|a| a.journal.clone()),
            },
            law_failures: check_laws(ar),
        },
        Err(_) => EndSummary::default(),
    };
    let sum = match res {
        Ok(ar) => {
            sh.log.push(K::Ended { actor: idx, sum });
            if let Some(w) = &weak {
                at_join(&sh, idx, w).await;
            }
            drop(ar);
            return;
        }
        Err(je) => {
            if je.is_panic() {
                let p = je.into_panic();
                EndSummary {
                    panic: Some(panic_payload_to_string(p.as_ref())),
                    ..sum
                }
            } else {
                EndSummary {
                    cancelled: true,
                    ..sum
                }
            }
        }
    };
    sh.log.push(K::Ended { actor: idx, sum });
    if let Some(w) = &weak {
        at_join(&sh, idx, w).await;
    }
}

fn jh_weak(sh: &Arc<Shared>, idx: usize) -> Option<ActorWeak<SA>> {
    sh.weaks.lock().unwrap_or_else(|e| e.into_inner()).get(idx).cloned().flatten()
}
