use crate::util::Args;
pub fn cmd_laws(_a: &Args) -> i32 {
    eprintln!("laws: not implemented yet");
    2
}
