// Prototype: C17 wall-clock oracles for blocking API, C11 id uniqueness under parallel spawn, C20 metrics.
#![allow(deprecated)]
use rsactor::{spawn, spawn_with_mailbox_capacity, Actor, ActorRef, Message};
use std::collections::BTreeSet;
use std::sync::atomic::{AtomicBool, AtomicU64, Ordering};
use std::sync::{Arc, Mutex};
use std::time::{Duration, Instant};

struct S { longest: Arc<AtomicU64>, entered: Arc<AtomicU64> }
struct Gate(Arc<tokio::sync::Semaphore>);
struct Work(u64 /*busy micros*/);
impl Actor for S { type Args = (Arc<AtomicU64>, Arc<AtomicU64>); type Error = String; async fn on_start(a: Self::Args, _: &ActorRef<Self>) -> Result<Self, String> { Ok(S { longest: a.0, entered: a.1 }) } }
impl Message<Gate> for S { type Reply = (); async fn handle(&mut self, g: Gate, _: &ActorRef<Self>) { self.entered.fetch_add(1, Ordering::SeqCst); let p = g.0.acquire().await.unwrap(); p.forget(); } }
impl Message<Work> for S { type Reply = u64; async fn handle(&mut self, w: Work, _: &ActorRef<Self>) -> u64 { self.entered.fetch_add(1, Ordering::SeqCst); let t = Instant::now(); while t.elapsed() < Duration::from_micros(w.0) { std::hint::spin_loop(); } let el = t.elapsed().as_nanos() as u64; self.longest.fetch_max(el, Ordering::SeqCst); w.0 } }
struct T2; impl Actor for T2 { type Args = (); type Error = String; async fn on_start(_: (), _: &ActorRef<Self>) -> Result<Self, String> { Ok(T2) } }

fn main() {
    std::panic::set_hook(Box::new(|i| eprintln!("PANIC: {i}")));
    let rt = tokio::runtime::Builder::new_multi_thread().worker_threads(8).enable_time().build().unwrap();
    // heartbeat
    let stop = Arc::new(AtomicBool::new(false)); let max_late = Arc::new(AtomicU64::new(0));
    { let (stop, max_late) = (stop.clone(), max_late.clone()); std::thread::spawn(move || { while !stop.load(Ordering::Relaxed) { let t = Instant::now(); std::thread::sleep(Duration::from_millis(5)); let late = t.elapsed().saturating_sub(Duration::from_millis(5)).as_millis() as u64; max_late.fetch_max(late, Ordering::Relaxed); } }); }
    let viol = Arc::new(Mutex::new(Vec::<String>::new()));
    let rounds = 300;
    // ---- C17: blocking with timeout against a gated, full actor
    let mut lateness = vec![];
    for round in 0..rounds {
        let (longest, entered) = (Arc::new(AtomicU64::new(0)), Arc::new(AtomicU64::new(0)));
        let (a, jh) = { let _g = rt.enter(); spawn_with_mailbox_capacity::<S>((longest.clone(), entered.clone()), 1) };
        let sem = Arc::new(tokio::sync::Semaphore::new(0));
        a.blocking_tell(Gate(sem.clone()), None).unwrap();            // being handled (or queued)
        while entered.load(Ordering::SeqCst) == 0 { std::thread::yield_now(); }
        a.blocking_tell(Work(0), None).unwrap();                       // fills the single slot
        let to = Duration::from_millis(5 + (round % 4) * 10);
        let mut ths = vec![];
        for k in 0..4 { let a = a.clone(); let viol = viol.clone(); ths.push(std::thread::spawn(move || {
            let t = Instant::now();
            let r = match k { 0 => a.blocking_tell(Work(0), Some(to)).map(|_| 0), 1 => a.blocking_ask(Work(0), Some(to)), 2 => a.blocking_tell(Work(0), Some(to)).map(|_| 0), _ => a.blocking_ask(Work(0), Some(to)) };
            let el = t.elapsed();
            match r { Err(e) if e.is_retryable() => { if el < to { viol.lock().unwrap().push(format!("C17/C10 early timeout {:?} < {:?}", el, to)); } } other => viol.lock().unwrap().push(format!("C17 expected Timeout on full mailbox, got {:?}", other.map_err(|e| e.to_string()))) }
            el.saturating_sub(to) })); }
        // deprecated alias ignores timeout: must NOT time out; returns Ok after gate opens
        let a2 = a.clone(); let dep = std::thread::spawn(move || { let t = Instant::now(); let r = a2.tell_blocking(Work(0), Some(Duration::from_millis(1))); (r.is_ok(), t.elapsed()) });
        // timeout variant from inside async context must not panic
        let a3 = a.clone(); let inside = rt.spawn(async move { a3.blocking_tell(Work(0), Some(Duration::from_millis(3))).is_err() });
        for t in ths { lateness.push(t.join().unwrap()); }
        let in_ok = rt.block_on(inside); if in_ok.is_err() { viol.lock().unwrap().push("C17 blocking_tell(Some) panicked inside runtime".into()); }
        std::thread::sleep(Duration::from_millis(3));
        sem.add_permits(1000);
        let (ok, el) = dep.join().unwrap(); if !ok { viol.lock().unwrap().push(format!("C17 deprecated alias failed/timeout after {:?}", el)); }
        // metrics (C20)
        let r = a.blocking_ask(Work(300), None).unwrap(); assert_eq!(r, 300);
        let weak = ActorRef::downgrade(&a);
        rt.block_on(async { a.stop().await.unwrap(); }); let res = rt.block_on(jh).unwrap(); assert!(res.is_completed());
        let m = a.metrics(); let n = entered.load(Ordering::SeqCst);
        if m.message_count != n { viol.lock().unwrap().push(format!("C20 message_count {} != entered {}", m.message_count, n)); }
        if m.avg_processing_time > m.max_processing_time { viol.lock().unwrap().push("C20 avg > max".into()); }
        if (m.max_processing_time.as_nanos() as u64) < longest.load(Ordering::SeqCst) { viol.lock().unwrap().push(format!("C20 max {:?} < demonstrated {}ns", m.max_processing_time, longest.load(Ordering::SeqCst))); }
        if a.message_count() != m.message_count || a.max_processing_time() != m.max_processing_time || a.avg_processing_time() != m.avg_processing_time { viol.lock().unwrap().push("C20 snapshot != accessors".into()); }
        if let Some(up) = weak.upgrade() { if up.message_count() != n { viol.lock().unwrap().push("C20 via upgraded weak differs".into()); } } else { viol.lock().unwrap().push("upgrade None while strong held".into()); }
    }
    lateness.sort(); println!("C17: {} timed blocking calls, lateness p50={:?} p99={:?} max={:?}; heartbeat max late={}ms", lateness.len(), lateness[lateness.len()/2], lateness[lateness.len()*99/100], lateness.last().unwrap(), max_late.load(Ordering::Relaxed));
    // ---- C11: id uniqueness under parallel spawn from many threads, two actor types, two runtimes
    let rt2 = tokio::runtime::Builder::new_multi_thread().worker_threads(4).enable_time().build().unwrap();
    let ids = Arc::new(Mutex::new(Vec::<u64>::new())); let mut ths = vec![]; let t = Instant::now();
    for th in 0..16 { let ids = ids.clone(); let h = if th % 2 == 0 { rt.handle().clone() } else { rt2.handle().clone() }; ths.push(std::thread::spawn(move || { let _g = h.enter(); let mut local = vec![]; for i in 0..20000 { if (i + th) % 2 == 0 { let (r, _j) = spawn::<T2>(()); local.push(r.identity().id); } else { let (r, _j) = spawn::<S>((Arc::new(AtomicU64::new(0)), Arc::new(AtomicU64::new(0)))); local.push(r.identity().id); } } ids.lock().unwrap().extend(local); })); }
    for t in ths { t.join().unwrap(); }
    let v = ids.lock().unwrap(); let set: BTreeSet<_> = v.iter().cloned().collect();
    println!("C11: {} spawns from 16 threads, {} distinct ids in {:?}", v.len(), set.len(), t.elapsed()); if set.len() != v.len() { viol.lock().unwrap().push("C11 duplicate ids".into()); }
    stop.store(true, Ordering::Relaxed);
    let v = viol.lock().unwrap(); println!("violations: {} {:?}", v.len(), v.iter().take(5).collect::<Vec<_>>());
}
