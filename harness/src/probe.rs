//! PROBE: one-shot checks of once-per-process state (C09 default capacity). Each mode must be run
//! in a fresh process; the orchestrator does that.
//!   --mode default        spawn() with nothing configured: measured bound must be 32
//!   --mode set --n N      8 racing threads call set_default_mailbox_capacity: exactly one Ok; bound == winner
//!   --mode spawn-then-set spawn() first, then configure: the first configuration must succeed and apply
//!   --mode zero           capacity 0 is rejected everywhere

use crate::util::*;
use rsactor::{Actor, ActorRef, Message};
use std::sync::Arc;
use std::time::Duration;

struct G {
    gate: Arc<tokio::sync::Semaphore>,
}
struct Hold;
struct Fill;
impl Actor for G {
    type Args = Arc<tokio::sync::Semaphore>;
    type Error = String;
    async fn on_start(g: Self::Args, _: &ActorRef<Self>) -> Result<Self, String> {
        Ok(G { gate: g })
    }
}
impl Message<Hold> for G {
    type Reply = ();
    async fn handle(&mut self, _: Hold, _: &ActorRef<Self>) {
        if let Ok(p) = self.gate.acquire().await {
            p.forget();
        }
    }
}
impl Message<Fill> for G {
    type Reply = ();
    async fn handle(&mut self, _: Fill, _: &ActorRef<Self>) {}
}

/// Measure how many tells a `spawn()`ed actor accepts while its handler is held: that is its mailbox bound.
async fn measure_default_bound() -> usize {
    let gate = Arc::new(tokio::sync::Semaphore::new(0));
    let (a, jh) = rsactor::spawn::<G>(gate.clone());
    a.tell(Hold).await.unwrap();
    // let the actor take the Hold message
    for _ in 0..50 {
        tokio::task::yield_now().await;
    }
    tokio::time::sleep(Duration::from_millis(20)).await;
    let mut accepted = 0usize;
    loop {
        match tokio::time::timeout(Duration::from_millis(100), a.tell(Fill)).await {
            Ok(Ok(())) => accepted += 1,
            _ => break,
        }
        if accepted > 100_000 {
            break;
        }
    }
    gate.add_permits(1 << 20);
    let _ = a.stop().await;
    let _ = jh.await;
    accepted
}

pub fn cmd_probe(a: &Args) -> i32 {
    crate::sa::install_panic_hook();
    let mode = a.str("mode", "default");
    // paused virtual clock: the "send into a full mailbox waits" timeouts below are decided in virtual time
    // (the clock only advances when every task is blocked), so a loaded machine cannot distort the measured bound
    let rt = tokio::runtime::Builder::new_current_thread().enable_time().start_paused(true).build().unwrap();
    let mut viol: Vec<String> = vec![];
    let mut obl = 0u64;
    let mut detail = String::new();
    match mode.as_str() {
        "default" => {
            let b = rt.block_on(measure_default_bound());
            obl += 1;
            detail = format!("measured bound {b}");
            if b != 32 {
                viol.push(format!("spawn() without configuration accepted {b} messages while the handler was held; documented default capacity is 32"));
            }
            if rsactor::DEFAULT_MAILBOX_CAPACITY != 32 {
                viol.push(format!("DEFAULT_MAILBOX_CAPACITY = {}", rsactor::DEFAULT_MAILBOX_CAPACITY));
            }
        }
        "set" => {
            let n = a.u64("n", 5) as usize;
            // tight start: every thread spins on a flag so that the calls really overlap
            let go = Arc::new(std::sync::atomic::AtomicBool::new(false));
            let ready = Arc::new(std::sync::atomic::AtomicUsize::new(0));
            let mut ths = vec![];
            for k in 0..12usize {
                let (go, ready) = (go.clone(), ready.clone());
                ths.push(std::thread::spawn(move || {
                    ready.fetch_add(1, std::sync::atomic::Ordering::SeqCst);
                    while !go.load(std::sync::atomic::Ordering::Acquire) {
                        std::hint::spin_loop();
                    }
                    (n + k, rsactor::set_default_mailbox_capacity(n + k).is_ok())
                }));
            }
            while ready.load(std::sync::atomic::Ordering::SeqCst) < 12 {
                std::thread::yield_now();
            }
            go.store(true, std::sync::atomic::Ordering::Release);
            let res: Vec<(usize, bool)> = ths.into_iter().map(|t| t.join().unwrap()).collect();
            let winners: Vec<usize> = res.iter().filter(|r| r.1).map(|r| r.0).collect();
            obl += 3;
            if winners.len() != 1 {
                viol.push(format!("{} of 12 racing set_default_mailbox_capacity calls succeeded: {:?}", winners.len(), res));
            }
            if rsactor::set_default_mailbox_capacity(n + 100).is_ok() {
                viol.push("a later set_default_mailbox_capacity call succeeded although the default was already configured".into());
            }
            let b = rt.block_on(measure_default_bound());
            detail = format!("winners {:?}, measured bound {b}", winners);
            if winners.len() == 1 && b != winners[0] {
                viol.push(format!("configured default capacity {} but spawn() accepted {b} messages while the handler was held", winners[0]));
            }
        }
        "set-cross" => {
            // the configured default is process-wide: it applies to spawn() on every thread, and a second configuration is
            // refused whichever thread attempts it
            let n = a.u64("n", 5) as usize;
            obl += 4;
            if let Err(e) = rsactor::set_default_mailbox_capacity(n) {
                viol.push(format!("the first set_default_mailbox_capacity({n}) of the process failed: {e}"));
            }
            let b_here = rt.block_on(measure_default_bound());
            let b_thread = std::thread::spawn(|| {
                let rt = tokio::runtime::Builder::new_current_thread().enable_time().start_paused(true).build().unwrap();
                rt.block_on(measure_default_bound())
            })
            .join()
            .unwrap_or(usize::MAX);
            let b_worker = {
                let rt2 = tokio::runtime::Builder::new_multi_thread().worker_threads(2).enable_time().build().unwrap();
                rt2.block_on(async { tokio::spawn(measure_default_bound()).await.unwrap_or(usize::MAX) })
            };
            let second_ok = std::thread::spawn(move || rsactor::set_default_mailbox_capacity(n + 1).is_ok()).join().unwrap_or(true);
            let b_after = rt.block_on(measure_default_bound());
            detail = format!("configured {n} on the main thread; bounds: same thread {b_here}, other thread {b_thread}, runtime worker {b_worker}, after a second attempt {b_after}; second set from another thread ok={second_ok}");
            for (wh, b) in [("the configuring thread", b_here), ("another OS thread", b_thread), ("a worker of a multi-thread runtime", b_worker), ("the configuring thread after another thread tried to configure again", b_after)] {
                if b != n {
                    viol.push(format!("configured default capacity {n}, but an actor spawn()ed on {wh} accepted {b} messages while its handler was held"));
                }
            }
            if second_ok {
                viol.push("a second set_default_mailbox_capacity, made from another thread, succeeded".into());
            }
        }
        "set-seq" => {
            // configured exactly once, whatever the values: the first call wins even when it spells the built-in default, the
            // second is refused even when it repeats the first; spawn() uses the first
            let n = a.u64("n", 32) as usize;
            let m = a.u64("m", 4) as usize;
            obl += 3;
            let first = rsactor::set_default_mailbox_capacity(n);
            if let Err(e) = &first {
                viol.push(format!("the first set_default_mailbox_capacity({n}) of the process failed: {e}"));
            }
            let b1 = rt.block_on(measure_default_bound());
            let second = rsactor::set_default_mailbox_capacity(m);
            if second.is_ok() {
                viol.push(format!("set_default_mailbox_capacity({n}) succeeded, and so did a later set_default_mailbox_capacity({m}): the default was configured twice"));
            }
            let b2 = rt.block_on(measure_default_bound());
            detail = format!("set({n}) -> {:?}, bound {b1}; set({m}) -> {:?}, bound {b2}", first.is_ok(), second.is_ok());
            for (wh, b) in [("after the first configuration", b1), ("after the refused second configuration", b2)] {
                if b != n {
                    viol.push(format!("configured default capacity {n} (then tried {m}), but {wh} spawn() accepted {b} messages while the handler was held"));
                }
            }
        }
        "spawn-then-set" => {
            let n = a.u64("n", 3) as usize;
            let b0 = rt.block_on(measure_default_bound());
            obl += 3;
            if b0 != 32 {
                viol.push(format!("unconfigured bound {b0} != 32"));
            }
            match rsactor::set_default_mailbox_capacity(n) {
                Ok(()) => {}
                Err(e) => viol.push(format!("the first set_default_mailbox_capacity({n}) of the process failed after an earlier spawn(): {e}")),
            }
            let b1 = rt.block_on(measure_default_bound());
            detail = format!("bound before {b0}, after set({n}) {b1}");
            if b1 != n {
                viol.push(format!("after set_default_mailbox_capacity({n}) spawn() accepted {b1} messages while the handler was held"));
            }
            if rsactor::set_default_mailbox_capacity(n + 1).is_ok() {
                viol.push("second configuration of the default capacity succeeded".into());
            }
        }
        "zero" => {
            obl += 3;
            if rsactor::set_default_mailbox_capacity(0).is_ok() {
                viol.push("set_default_mailbox_capacity(0) succeeded".into());
            }
            // a rejected zero must not consume the one allowed configuration
            if rsactor::set_default_mailbox_capacity(4).is_err() {
                viol.push("set_default_mailbox_capacity(4) failed after a rejected set(0)".into());
            }
            let r = rt.block_on(async {
                let gate = Arc::new(tokio::sync::Semaphore::new(0));
                tokio::spawn(async move {
                    let _ = rsactor::spawn_with_mailbox_capacity::<G>(gate, 0);
                })
                .await
            });
            detail = format!("spawn_with_mailbox_capacity(_, 0) -> {:?}", r.as_ref().map(|_| "returned").map_err(|e| e.is_panic()));
            if r.is_ok() {
                viol.push("spawn_with_mailbox_capacity(_, 0) did not reject capacity 0".into());
            }
            // explicit capacities are hard bounds too
            // ... of every size: a capacity in the tens of thousands is as hard a bound as a capacity of 1
            for cap in [1usize, 2, 7, 33, 50, 70_001] {
                let gate = Arc::new(tokio::sync::Semaphore::new(0));
                let got = rt.block_on(async {
                    let (a, jh) = rsactor::spawn_with_mailbox_capacity::<G>(gate.clone(), cap);
                    a.tell(Hold).await.unwrap();
                    tokio::time::sleep(Duration::from_millis(20)).await;
                    let mut acc = 0;
                    while let Ok(Ok(())) = tokio::time::timeout(Duration::from_millis(60), a.tell(Fill)).await {
                        acc += 1;
                        if acc > cap + 1000 {
                            break;
                        }
                    }
                    gate.add_permits(1 << 20);
                    let _ = a.kill();
                    let _ = jh.await;
                    acc
                });
                obl += 1;
                if got != cap {
                    viol.push(format!("spawn_with_mailbox_capacity(_, {cap}) accepted {got} messages while the handler was held"));
                }
            }
        }
        other => {
            eprintln!("unknown probe mode {other}");
            return 2;
        }
    }
    let vj: Vec<String> = viol
        .iter()
        .map(|m| JObj::new().s("prop", "C09").s("clause", "C09.config").s("msg", m).s("profile", &format!("probe:{mode}")).n("seed", 0).n("pert", 0).b("erased", false).build())
        .collect();
    println!(
        "{}",
        JObj::new()
            .s("engine", "probe")
            .s("features", &crate::features_label())
            .n("scenarios", 1)
            .n("events", obl)
            .raw("obl", &format!("{{\"C09.config\":{}}}", obl))
            .raw("nontrivial", "{\"C09\":1}")
            .raw("hashes", &jarr(&[format!("{}", mix(mode.len() as u64, a.u64("n", 0)))]))
            .raw("viol", &jarr(&vj))
            .raw("samples", &jarr(&[JObj::new().s("engine", "probe").s("mode", &mode).s("observed", &detail).build()]))
            .build()
    );
    if viol.is_empty() {
        0
    } else {
        1
    }
}
